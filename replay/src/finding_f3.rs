//! F3 (C07): CANONICAL_INTS without NO_UNKNOWN_OPS changes the cost of a SUCCESSFUL softfork call.
//! (softfork (q . 1000) (q . 0x00) (q . ()) ()): the extension argument 0x00 is a non-canonical zero.
//! Without CANONICAL_INTS it denotes extension 0 and the guard runs; with it, decoding fails and the
//! lenient unknown-softfork fallback swallows the error and returns the DECLARED cost.
use clvmr::allocator::Allocator;
use clvmr::chia_dialect::{ChiaDialect, ClvmFlags};
use clvmr::run_program::run_program;
use clvmr::serde::node_from_bytes;

fn run(flags: ClvmFlags) -> String {
    let mut a = Allocator::new();
    // (softfork (q . 1000) (q . 0x00) (q . ()) ())  =  (36 (1 . 1000) (1 . 0x00) (1 . ()) ())
    let prg: Vec<u8> = vec![0xff, 0x24, 0xff, 0xff, 0x01, 0x82, 0x03, 0xe8, 0xff, 0xff, 0x01, 0x00, 0xff, 0xff, 0x01, 0x80, 0xff, 0x80, 0x80];
    let p = node_from_bytes(&mut a, &prg).unwrap();
    let env = a.nil();
    match run_program(&mut a, &ChiaDialect::new(flags), p, env, 0) {
        Ok(r) => format!("Ok(cost {})", r.0),
        Err(e) => format!("Err({e})"),
    }
}

pub fn f3() -> String {
    let base = run(ClvmFlags::NEW_COST_MODEL);
    let restricted = run(ClvmFlags::NEW_COST_MODEL | ClvmFlags::CANONICAL_INTS);
    let reproduced = base.starts_with("Ok") && restricted.starts_with("Ok") && base != restricted;
    format!("{{\"finding\":\"F3\",\"reproduced\":{reproduced},\"input\":\"(softfork (q . 1000) (q . 0x00) (q . ()) ()), env (), budget 0\",\"flags_F\":\"NEW_COST_MODEL\",\"under_F\":\"{base}\",\"under_F_plus_CANONICAL_INTS\":\"{restricted}\",\"expected\":\"the same cost, or a failure\"}}")
}
