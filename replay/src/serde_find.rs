//! Failing-input finders for the classic serializer properties (C29 size limits, C15 round trip).
use clvmr::allocator::{Allocator, NodePtr};
use clvmr::error::EvalErr;
use clvmr::serde::{
    is_canonical_serialization, node_from_bytes, node_to_bytes, node_to_bytes_backrefs, node_to_bytes_backrefs_limit,
    node_to_bytes_limit, serialized_length_from_bytes, serialized_length_from_bytes_trusted,
};

use crate::alloc_model::Rng;

fn build(a: &mut Allocator, rng: &mut Rng, depth: u32) -> NodePtr {
    if depth == 0 || rng.below(3) == 0 {
        let len = [0usize, 1, 1, 2, 5, 0x3f, 0x40, 0x41, 0x1fff, 0x2000, 0x2001][rng.below(11) as usize];
        let first = [0u8, 1, 0x7f, 0x80, 0xff][rng.below(5) as usize];
        let mut v = vec![first; len];
        for (i, b) in v.iter_mut().enumerate().skip(1) {
            *b = i as u8;
        }
        a.new_atom(&v).unwrap()
    } else {
        let l = build(a, rng, depth - 1);
        let r = if rng.below(4) == 0 { l } else { build(a, rng, depth - 1) };
        a.new_pair(l, r).unwrap()
    }
}

fn hex(b: &[u8]) -> String {
    let s: String = b.iter().take(48).map(|x| format!("{x:02x}")).collect();
    if b.len() > 48 {
        format!("{s}..({} bytes)", b.len())
    } else {
        s
    }
}

/// C29: for every limit L: |ser| <= L => Ok(ser) ; otherwise Err(OutOfMemory)
pub fn limit_search(seed: u64) -> String {
    let mut rng = Rng(seed ^ 0x29);
    let mut cases = 0u64;
    for _ in 0..60 {
        let mut a = Allocator::new();
        let depth = 1 + rng.below(4) as u32;
        let n = build(&mut a, &mut rng, depth);
        let full = node_to_bytes_limit(&a, n, usize::MAX / 2).unwrap();
        let full_br = node_to_bytes_backrefs(&a, n).unwrap();
        // every limit around every byte position where a marker / prefix / body starts, for small outputs all limits
        let lims: Vec<usize> = if full.len() <= 300 { (0..=full.len() + 1).collect() } else {
            let mut v: Vec<usize> = (0..40).collect();
            v.extend((0..40).map(|_| rng.below(full.len() as u64 + 2) as usize));
            v.extend([full.len() - 1, full.len(), full.len() + 1]);
            v
        };
        // limits that are not sizes anybody could allocate ("no limit" idioms) must behave like any other
        let mut lims = lims;
        lims.extend([usize::MAX, usize::MAX - 1, isize::MAX as usize, isize::MAX as usize + 1, u32::MAX as usize + 1]);
        for l in lims {
            cases += 1;
            let r = node_to_bytes_limit(&a, n, l);
            let ok = if full.len() <= l { r.as_ref().map(|v| v == &full).unwrap_or(false) } else { matches!(r, Err(EvalErr::OutOfMemory)) };
            if !ok {
                return format!("{{\"found\":true,\"finder\":\"limit\",\"function\":\"node_to_bytes_limit\",\"tree_serialization\":\"{}\",\"serialized_len\":{},\"limit\":{l},\"observed\":\"{}\",\"expected\":\"{}\"}}",
                    hex(&full), full.len(), format!("{r:?}").replace('"', "'").chars().take(80).collect::<String>(),
                    if full.len() <= l { "Ok(unlimited serialization)" } else { "Err(OutOfMemory)" });
            }
            if l <= full_br.len() + 1 || l > u32::MAX as usize {
                let r = node_to_bytes_backrefs_limit(&a, n, l);
                let ok = if full_br.len() <= l { r.as_ref().map(|v| v == &full_br).unwrap_or(false) } else { matches!(r, Err(EvalErr::OutOfMemory)) };
                if !ok {
                    return format!("{{\"found\":true,\"finder\":\"limit\",\"function\":\"node_to_bytes_backrefs_limit\",\"tree_serialization\":\"{}\",\"serialized_len\":{},\"limit\":{l},\"observed\":\"{}\",\"expected\":\"{}\"}}",
                        hex(&full), full_br.len(), format!("{r:?}").replace('"', "'").chars().take(80).collect::<String>(),
                        if full_br.len() <= l { "Ok(unlimited serialization)" } else { "Err(OutOfMemory)" });
                }
            }
        }
    }
    format!("{{\"found\":false,\"finder\":\"limit\",\"cases\":{cases}}}")
}

/// C15: round trip, canonical, length functions
pub fn roundtrip_search(seed: u64) -> String {
    let mut rng = Rng(seed ^ 0x15);
    let mut cases = 0u64;
    // boundary atoms first: 2^k - 1, 2^k, 2^k + 1 bytes around every prefix-length switch
    let mut sizes: Vec<usize> = vec![];
    for k in [6usize, 13, 20, 27] {
        for d in [-1i64, 0, 1] {
            sizes.push(((1i64 << k) + d) as usize);
        }
    }
    for sz in sizes {
        cases += 1;
        let mut a = Allocator::new();
        let v = vec![0xa5u8; sz];
        let n = a.new_atom(&v).unwrap();
        let ser = node_to_bytes_limit(&a, n, usize::MAX / 2).unwrap();
        let canon = is_canonical_serialization(&ser);
        let l1 = serialized_length_from_bytes(&ser).ok();
        let l2 = serialized_length_from_bytes_trusted(&ser).ok();
        let mut b = Allocator::new();
        let back = node_from_bytes(&mut b, &ser).ok().map(|m| b.atom(m).as_ref() == v.as_slice());
        if !canon || l1 != Some(ser.len() as u64) || l2 != Some(ser.len() as u64) || back != Some(true) {
            return format!("{{\"found\":true,\"finder\":\"roundtrip\",\"atom_len\":{sz},\"prefix\":\"{}\",\"is_canonical\":{canon},\"len_untrusted\":\"{l1:?}\",\"len_trusted\":\"{l2:?}\",\"serialized_len\":{},\"decodes_back\":\"{back:?}\"}}", hex(&ser[..6.min(ser.len())]), ser.len());
        }
    }
    // integers (inline small atoms included) alone and inside a pair
    for v in [0i64, 1, 2, 0x7e, 0x7f, 0x80, 0x81, 0xff, 0x100, 0x7fff, 0x8000, 0xffff, 0x7fffff, 0x800000, 0x3ffffff, 0x4000000, -1, -128, -129, -32768] {
        cases += 1;
        let mut a = Allocator::new();
        let n = a.new_number(v.into()).unwrap();
        let want = a.atom(n).as_ref().to_vec();
        let p = a.new_pair(n, n).unwrap();
        for node in [n, p] {
            let ser = node_to_bytes(&a, node).unwrap();
            let mut b = Allocator::new();
            let back = node_from_bytes(&mut b, &ser);
            let same = match back {
                Ok(m) => match b.sexp(m) {
                    clvmr::allocator::SExp::Atom => node == n && b.atom(m).as_ref() == want.as_slice(),
                    clvmr::allocator::SExp::Pair(l, r) => node == p && b.atom(l).as_ref() == want.as_slice() && b.atom(r).as_ref() == want.as_slice(),
                },
                Err(_) => false,
            };
            if !same || !is_canonical_serialization(&ser) || serialized_length_from_bytes(&ser).ok() != Some(ser.len() as u64) {
                return format!("{{\"found\":true,\"finder\":\"roundtrip\",\"integer\":{v},\"in_pair\":{},\"serialization\":\"{}\",\"decodes_to_same_tree\":{same},\"is_canonical\":{}}}", node == p, hex(&ser), is_canonical_serialization(&ser));
            }
        }
    }
    // converse clause: an overlong (non-minimal) length prefix with the full payload present decodes,
    // so it must NOT be judged canonical (it re-serializes to fewer bytes)
    for size in [0usize, 1, 2, 0x3f, 0x40, 0x41, 0xfff, 0x1000, 0x1fff, 0x2000, 0x2001, 0xfffff] {
        for k in 1usize..=6 {
            let bits = [6usize, 13, 20, 27, 34, 41][k - 1];
            if (size as u128) >= (1u128 << bits) {
                continue;
            }
            let minimal_k = (1..=6).find(|j| (size as u128) < (1u128 << [6usize, 13, 20, 27, 34, 41][*j - 1])).unwrap();
            if k <= minimal_k {
                continue;
            }
            cases += 1;
            let mut input = vec![0u8; k];
            let mut v = size as u64;
            for i in (0..k).rev() {
                input[i] = v as u8;
                v >>= 8;
            }
            input[0] |= (0xff00u16 >> k) as u8;
            input.extend(std::iter::repeat(0x99u8).take(size));
            let mut b = Allocator::new();
            let decodes = node_from_bytes(&mut b, &input).is_ok();
            let canon = is_canonical_serialization(&input);
            if decodes && canon {
                return format!("{{\"found\":true,\"finder\":\"roundtrip\",\"input_prefix\":\"{}\",\"payload_len\":{size},\"prefix_len\":{k},\"minimal_prefix_len\":{minimal_k},\"observed\":\"decodes and is judged canonical, but re-serializes with a shorter prefix\"}}", hex(&input[..k]));
            }
        }
    }
    for _ in 0..200 {
        cases += 1;
        let mut a = Allocator::new();
        let depth = 1 + rng.below(5) as u32;
        let n = build(&mut a, &mut rng, depth);
        let ser = match node_to_bytes(&a, n) { Ok(s) => s, Err(_) => continue };
        let mut b = Allocator::new();
        let m = match node_from_bytes(&mut b, &ser) { Ok(m) => m, Err(e) => return format!("{{\"found\":true,\"finder\":\"roundtrip\",\"serialization\":\"{}\",\"observed\":\"decode failed: {e:?}\"}}", hex(&ser)) };
        let ser2 = node_to_bytes(&b, m).unwrap();
        let ok = ser2 == ser && is_canonical_serialization(&ser)
            && serialized_length_from_bytes(&ser).ok() == Some(ser.len() as u64)
            && serialized_length_from_bytes_trusted(&ser).ok() == Some(ser.len() as u64);
        if !ok {
            return format!("{{\"found\":true,\"finder\":\"roundtrip\",\"serialization\":\"{}\",\"reserialized_equal\":{},\"is_canonical\":{}}}", hex(&ser), ser2 == ser, is_canonical_serialization(&ser));
        }
    }
    format!("{{\"found\":false,\"finder\":\"roundtrip\",\"cases\":{cases}}}")
}
