use clvmr::allocator::Allocator;

pub fn run(id: &str) -> String {
    match id {
        "F1" => f1(),
        _ => format!("{{\"error\":\"unknown finding {id}\"}}"),
    }
}

/// F1: new_substr on an inline atom whose slice is not a minimal small integer grows the heap
/// (C12) without a limit check (C13).
fn f1() -> String {
    let mut a = Allocator::new_limited(10);
    let n = a.new_small_number(0x80).unwrap();
    let before = a.heap_size();
    let s = a.new_substr(n, 0, 1).unwrap();
    let after = a.heap_size();
    let grew = after - before;
    let mut last = after;
    for _ in 0..20 {
        if a.new_substr(n, 0, 1).is_err() {
            break;
        }
        last = a.heap_size();
    }
    let reproduced = grew == 1 && last > 10 && a.atom(s).as_ref() == [0u8];
    format!(
        "{{\"finding\":\"F1\",\"reproduced\":{reproduced},\"input\":\"new_limited(10); n=new_small_number(0x80); new_substr(n,0,1) x21\",\"heap_before\":{before},\"heap_after_one\":{after},\"heap_after_21\":{last},\"heap_limit\":10}}"
    )
}
