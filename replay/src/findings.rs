use clvmr::allocator::Allocator;

pub fn run(id: &str) -> String {
    match id {
        "F1" => f1(),
        "F2" => f2(),
        "F3" => crate::finding_f3::f3(),
        _ => format!("{{\"error\":\"unknown finding {id}\"}}"),
    }
}

/// F1: new_substr on an inline atom whose slice is not a minimal small integer grows the heap (C12: substrings
/// are documented to share their parent's bytes).  The missing limit check (C13, and its consequence for C04)
/// was repaired by a fix: commit; what remains is the accounting.
fn f1() -> String {
    let mut a = Allocator::new_limited(10);
    let n = a.new_small_number(0x80).unwrap();
    let before = a.heap_size();
    let s = a.new_substr(n, 0, 1).unwrap();
    let after = a.heap_size();
    let grew = after - before;
    let mut last = after;
    for _ in 0..20 {
        if a.new_substr(n, 0, 1).is_err() {
            break;
        }
        last = a.heap_size();
    }
    let reproduced = grew == 1 && a.atom(s).as_ref() == [0u8];
    format!(
        "{{\"finding\":\"F1\",\"reproduced\":{reproduced},\"input\":\"new_limited(10); n=new_small_number(0x80); new_substr(n,0,1) x21\",\"heap_before\":{before},\"heap_after_one\":{after},\"heap_after_21\":{last},\"heap_limit\":10}}"
    )
}

/// F2: pre-hard-fork op_unknown: exact product 2^33 * 2^31 = 2^64 wraps to 0 and passes the 2^32-1 cap
fn f2() -> String {
    use clvmr::chia_dialect::ClvmFlags;
    use clvmr::more_ops::op_unknown;
    let mut a = Allocator::new();
    let op = a.new_atom(&[0x7f, 0xff, 0xff, 0xff, 0x40]).unwrap();
    let big = a.new_atom(&[0xaa; 31]).unwrap();
    let nil = a.nil();
    let mut args = a.new_pair(big, nil).unwrap();
    for _ in 0..26_843_544u32 {
        args = a.new_pair(nil, args).unwrap();
    }
    // base = 99 + 26,843,545 * 320 + 3 * 31 = 2^33 ; multiplier + 1 = 2^31 ; exact product = 2^64
    let old = op_unknown(&mut a, op, args, u64::MAX, ClvmFlags::empty());
    let new = op_unknown(&mut a, op, args, u64::MAX, ClvmFlags::NEW_COST_MODEL);
    let old_s = match &old { Ok(r) => format!("Ok(cost {})", r.0), Err(e) => format!("Err({e})") };
    let new_s = match &new { Ok(r) => format!("Ok(cost {})", r.0), Err(e) => format!("Err({e})") };
    let reproduced = old.is_ok();
    format!("{{\"finding\":\"F2\",\"reproduced\":{reproduced},\"input\":\"opcode 7fffffff40, 26843544 nils + one 31-byte atom, max_cost u64::MAX\",\"exact_product\":\"2^64\",\"old_model\":\"{old_s}\",\"new_model\":\"{new_s}\",\"expected\":\"failure (product exceeds 2^32-1)\"}}")
}
