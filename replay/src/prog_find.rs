//! Program-level differential finder (C02 C04 C07 C11 C31): a small corpus of CLVM programs is run
//! on the REAL interpreter under pairs of flag sets / budgets and the clauses of the properties are
//! compared directly.  It only attaches a concrete input to an obligation the verifier already
//! failed (or to an undecided run); it never decides a property by itself.
use clvmr::allocator::{Allocator, NodePtr};
use clvmr::chia_dialect::{ChiaDialect, ClvmFlags};
use clvmr::run_program::run_program;
use clvmr::serde::node_to_bytes;

fn hex(b: &[u8]) -> String {
    b.iter().map(|x| format!("{x:02x}")).collect()
}

#[derive(Clone)]
enum T {
    A(Vec<u8>),
    P(Box<T>, Box<T>),
}

fn a(b: &[u8]) -> T {
    T::A(b.to_vec())
}
fn n(v: u64) -> T {
    if v == 0 {
        return T::A(vec![]);
    }
    let mut b = v.to_be_bytes().to_vec();
    while b.len() > 1 && b[0] == 0 {
        b.remove(0);
    }
    if b[0] & 0x80 != 0 {
        b.insert(0, 0);
    }
    T::A(b)
}
fn nil() -> T {
    T::A(vec![])
}
fn cons(l: T, r: T) -> T {
    T::P(Box::new(l), Box::new(r))
}
fn list(items: Vec<T>) -> T {
    let mut l = nil();
    for i in items.into_iter().rev() {
        l = cons(i, l);
    }
    l
}
fn q(x: T) -> T {
    cons(n(1), x)
}
fn op(code: u64, args: Vec<T>) -> T {
    let mut v = vec![n(code)];
    v.extend(args);
    list(v)
}
fn build(al: &mut Allocator, t: &T) -> NodePtr {
    match t {
        T::A(b) => al.new_atom(b).unwrap(),
        T::P(l, r) => {
            let l = build(al, l);
            let r = build(al, r);
            al.new_pair(l, r).unwrap()
        }
    }
}

#[derive(PartialEq, Clone, Debug)]
struct Outcome {
    ok: bool,
    cost: u64,
    result: String,
    err: String,
    atoms: usize,
    pairs: usize,
    heap: usize,
}

fn run(t: &T, flags: ClvmFlags, budget: u64) -> Outcome {
    let t2 = t.clone();
    let r = std::panic::catch_unwind(std::panic::AssertUnwindSafe(move || run_inner(&t2, flags, budget)));
    match r {
        Ok(o) => o,
        Err(_) => Outcome { ok: false, cost: 0, result: String::new(), err: "PANIC".into(), atoms: 0, pairs: 0, heap: 0 },
    }
}

fn run_inner(t: &T, flags: ClvmFlags, budget: u64) -> Outcome {
    let mut al = Allocator::new();
    let p = build(&mut al, t);
    let env = al.nil();
    let (a0, p0, h0) = (al.atom_count(), al.pair_count(), al.heap_size());
    match run_program(&mut al, &ChiaDialect::new(flags), p, env, budget) {
        Ok(red) => Outcome { ok: true, cost: red.0, result: hex(&node_to_bytes(&al, red.1).unwrap_or_default()), err: String::new(), atoms: al.atom_count() - a0, pairs: al.pair_count() - p0, heap: al.heap_size() - h0 },
        Err(e) => Outcome { ok: false, cost: 0, result: String::new(), err: format!("{e}"), atoms: al.atom_count() - a0, pairs: al.pair_count() - p0, heap: al.heap_size() - h0 },
    }
}

fn corpus() -> Vec<(String, T)> {
    let mut c: Vec<(String, T)> = vec![];
    let big = vec![0x55u8; 600];
    let mut add = |name: &str, t: T| c.push((name.to_string(), t));
    add("quote", q(n(42)));
    add("path-1", n(1));
    add("sha256", op(11, vec![q(a(b"abc")), q(a(&big))]));
    add("sha256-1-5", op(11, vec![q(n(1)), q(n(5))]));
    add("concat", op(14, vec![q(a(b"hello")), q(a(b"world!"))]));
    add("concat-big", op(14, vec![q(a(&big)), q(a(&big))]));
    add("strlen", op(13, vec![q(a(&big))]));
    add("add", op(16, vec![q(n(255)), q(n(1)), q(n(70000))]));
    add("sub", op(17, vec![q(n(5)), q(n(7))]));
    add("mul", op(18, vec![q(n(300)), q(n(70000))]));
    add("mul-padded", op(18, vec![q(a(&[0x00, 0x80])), q(n(2))]));
    add("mul-padded-zeros", op(18, vec![q(a(&[0, 0, 0, 7])), q(a(&[0x7f, 0xff]))]));
    add("div", op(19, vec![q(n(1000)), q(n(7))]));
    add("divmod", op(20, vec![q(n(1000)), q(n(7))]));
    add("mod", op(61, vec![q(n(1000)), q(n(7))]));
    add("modpow", op(60, vec![q(n(2)), q(n(10)), q(n(1000))]));
    add("logand-empty", op(24, vec![q(a(&[0, 0xff])), q(nil())]));
    add("if-substr", op(3, vec![op(12, vec![q(a(b"0123456789")), q(n(3)), q(n(3))]), q(n(10)), q(n(20))]));
    add("not", op(32, vec![q(nil())]));
    add("any", op(33, vec![q(nil()), q(n(1)), q(nil())]));
    add("all", op(34, vec![q(n(1)), q(nil())]));
    add("eq", op(9, vec![q(a(b"x")), q(a(b"x"))]));
    add("listp", op(7, vec![q(cons(n(1), n(2)))]));
    add("cons-first-rest", op(5, vec![op(4, vec![q(n(7)), q(n(8))])]));
    add("apply", op(2, vec![q(op(16, vec![n(1), q(n(3))])), q(n(39))]));
    add("gc-sha-concat", op(11, vec![op(14, vec![q(a(&big)), q(a(&big))])]));
    add("gc-concat-sha", op(14, vec![op(11, vec![q(a(b"abc"))]), op(11, vec![op(14, vec![q(a(&big)), q(a(&big))])])]));
    add("sha256tree-63", op(63, vec![q(cons(n(1), n(2)))]));
    add("keccak-62", op(62, vec![q(a(b"foobar"))]));
    add("unknown-op", list(vec![a(&[0x33, 0x00, 0x32, 0xc0]), q(a(&big))]));
    add("secp-bad", list(vec![a(&[0x13, 0xd6, 0x1f, 0x00]), q(n(1)), q(n(2)), q(n(3))]));
    add("secp-cf1", list(vec![a(&[0x13, 0xd6, 0x1f, 0x40]), q(n(1)), q(n(2)), q(n(3))]));
    // softfork guards: declared cost = 140 (guard) + inner cost, computed by a dry run below
    for (nm, ext, inner) in [
        ("sf-q", 0u64, q(n(42))),
        ("sf-alloc", 0, op(4, vec![op(11, vec![q(a(b"hello"))]), op(14, vec![q(a(b"ab")), q(a(b"cdefgh"))])])),
        ("sf-ext1", 1, q(n(42))),
        ("sf-unknown-ext", 5, q(n(42))),
    ] {
        for declared in [0u64, 1] {
            // declared == 0: placeholder, fixed up to the exact cost by the caller of the finder
            let _ = declared;
        }
        c.push((nm.to_string(), op(36, vec![q(n(1000)), q(n(ext)), q(inner.clone()), q(nil())])));
    }
    // malformed / unusual shapes (totality)
    c.push(("sf-one-arg-zero".into(), op(36, vec![q(a(&[0x00]))])));
    c.push(("sf-no-args".into(), op(36, vec![])));
    c.push(("op-is-list-of-list".into(), list(vec![list(vec![list(vec![n(1)])])])));
    c.push(("op-is-list-of-list-arg".into(), list(vec![list(vec![list(vec![n(1)])]), n(2)])));
    c.push(("apply-no-args".into(), op(2, vec![])));
    c.push(("path-into-atom".into(), n(7)));
    c.push(("improper-args".into(), cons(n(16), n(5))));
    c.push(("sf-noncanon-ext".into(), op(36, vec![q(n(1000)), q(a(&[0x00])), q(nil()), nil()])));
    c.push(("sf-in-eq-gc".into(), op(9, vec![op(36, vec![q(n(1000)), q(n(0)), q(op(4, vec![op(14, vec![q(a(b"aaaaaaaa")), q(a(b"bbbbbbbb"))]), q(nil())])), q(nil())]), q(nil())])));
    c
}

/// the exact declared cost that makes a softfork program succeed (found by reading the mismatch)
fn fix_softfork(t: &T, flags: ClvmFlags) -> T {
    // try declared costs from a dry run: run the inner program alone and add the guard cost
    if let T::P(opc, rest) = t {
        if let T::A(b) = &**opc {
            if b == &vec![36u8] {
                if let T::P(_cost, rest2) = &**rest {
                    if let T::P(_ext, rest3) = &**rest2 {
                        if let T::P(prog, _) = &**rest3 {
                            if let T::P(_q, inner) = &**prog {
                                let o = run(inner, flags, 0);
                                if o.ok {
                                    let guard = if flags.contains(ClvmFlags::NEW_COST_MODEL) { 500 } else { 140 };
                                    for delta in [guard, 140u64, 500] {
                                        let cand = cons(opc.as_ref().clone(), cons(q(n(o.cost + delta)), rest2.as_ref().clone()));
                                        if run(&cand, flags, 0).ok {
                                            return cand;
                                        }
                                    }
                                }
                            }
                        }
                    }
                }
            }
        }
    }
    t.clone()
}

fn found(pid: &str, name: &str, t: &T, what: String) -> String {
    let mut al = Allocator::new();
    let p = build(&mut al, t);
    let ser = hex(&node_to_bytes(&al, p).unwrap_or_default());
    format!("{{\"found\":true,\"finder\":\"program-corpus\",\"property\":\"{pid}\",\"program\":\"{name}\",\"program_hex\":\"{ser}\",\"what\":\"{}\"}}", what.replace('"', "'"))
}

/// C04 / C13 with a LIMITED heap: a guarded sub-program allocates garbage and returns an atom; for every heap limit in a window
/// around the program's own footprint the run with ENABLE_GC must have the same outcome as the run without.  (This is how the
/// interaction of the unchecked heap append of new_substr on an inline parent with the checked re-allocation in
/// maybe_restore_with_node was found; repaired by the fix: commit listed in known_findings.json.)
fn limited_heap_gc(pid: &str) -> Option<String> {
    let big = vec![0x55u8; 700];
    // (a (q . (f (c X G))) 1) and (a (q . (r (c G X))) 1): X is returned, G is garbage of 1400 bytes
    let g = op(14, vec![n(1), n(1)]);
    let xs: Vec<(&str, T)> = vec![
        ("substr of an inline atom", op(12, vec![q(n(128)), q(nil()), q(n(1))])),
        ("substr of a heap atom", op(12, vec![n(1), q(n(3)), q(n(40))])),
        ("sha256", op(11, vec![q(n(1))])),
        ("concat", op(14, vec![q(a(b"abc")), q(a(b"defgh"))])),
        ("small sum", op(16, vec![q(n(70000)), q(n(70000))])),
    ];
    for (xname, x) in xs {
        for order in [0u8, 1] {
            let inner = if order == 0 { op(6, vec![op(4, vec![g.clone(), x.clone()])]) } else { op(5, vec![op(4, vec![x.clone(), g.clone()])]) };
            let prog = op(2, vec![q(inner), n(1)]);
            let mut probe = Allocator::new();
            let _ = build(&mut probe, &prog);
            let _ = probe.new_atom(&big);
            let h0 = probe.heap_size();
            for extra in (0..1500usize).chain([3000usize, 100000]) {
                let limit = h0 + extra;
                let mut outs = vec![];
                for gc in [false, true] {
                    let prog2 = prog.clone();
                    let big2 = big.clone();
                    let r = std::panic::catch_unwind(std::panic::AssertUnwindSafe(move || {
                        let mut al = Allocator::new_limited(limit);
                        let p = build(&mut al, &prog2);
                        let env = al.new_atom(&big2).unwrap();
                        let flags = if gc { ClvmFlags::ENABLE_GC } else { ClvmFlags::empty() };
                        match run_program(&mut al, &ChiaDialect::new(flags), p, env, 0) {
                            Ok(red) => format!("Ok(cost {}, {}) heap_size {}", red.0, hex(&node_to_bytes(&al, red.1).unwrap_or_default()), al.heap_size()),
                            Err(e) => format!("Err({e})"),
                        }
                    }));
                    outs.push(r.unwrap_or_else(|_| "PANIC".to_string()));
                }
                let over = outs[0].rsplit(' ').next().and_then(|h| h.parse::<usize>().ok()).map(|h| h > limit).unwrap_or(false);
                if outs[0] != outs[1] || (pid == "C13" && over) {
                    let name = format!("guarded {xname}, order {order}, heap limit {limit}");
                    return Some(found(pid, &name, &prog, format!("Allocator::new_limited({limit}), env = 700-byte atom: without ENABLE_GC {} ; with ENABLE_GC {}", outs[0], outs[1])));
                }
            }
        }
    }
    None
}

/// C03: pairs of programs that denote the same computation over differently REPRESENTED atoms (an empty atom as a zero-length
/// view of a heap atom vs the inline nil; a small integer built by concat / substr on the heap vs the inline one) must give the
/// same result and the same cost as each other up to the cost of building the operand, so each pair is compared through a
/// wrapper that receives the operand from the environment.
fn representation_pairs(pid: &str) -> Option<String> {
    // wrapper programs over the environment value (path 1)
    let wrappers: Vec<(&str, T)> = vec![
        ("(i 1 (q . 100) (q . 200))", op(3, vec![n(1), q(n(100)), q(n(200))])),
        ("(not 1)", op(32, vec![n(1)])),
        ("(any 1)", op(33, vec![n(1)])),
        ("(all 1 (q . 1))", op(34, vec![n(1), q(n(1))])),
        ("(+ 1 (q . 5))", op(16, vec![n(1), q(n(5))])),
        ("(* 1 (q . 3))", op(18, vec![n(1), q(n(3))])),
        ("(= 1 (q . 7))", op(9, vec![n(1), q(n(7))])),
        ("(> 1 (q . 3))", op(21, vec![n(1), q(n(3))])),
        ("(sha256 1)", op(11, vec![n(1)])),
        ("(strlen 1)", op(13, vec![n(1)])),
        ("(concat 1 1)", op(14, vec![n(1), n(1)])),
        ("(logand 1 (q . 127))", op(24, vec![n(1), q(n(127))])),
        ("(lognot 1)", op(23, vec![n(1)])),
        ("(substr 1 (q . 0) (q . 0))", op(12, vec![n(1), q(nil()), q(nil())])),
    ];
    for (wname, w) in wrappers.iter() {
        for value in [vec![], vec![7u8], vec![0x12, 0x34], vec![0x03, 0xff, 0xff, 0xff]] {
            let mut outs: Vec<String> = vec![];
            for repr in 0..3u8 {
                let w2 = w.clone();
                let v2 = value.clone();
                let r = std::panic::catch_unwind(std::panic::AssertUnwindSafe(move || {
                    let mut al = Allocator::new();
                    let p = build(&mut al, &w2);
                    // the same bytes in three representations
                    let env = match repr {
                        0 => al.new_atom(&v2).unwrap(),
                        1 => {
                            let mut padded = vec![0xeeu8; 9];
                            padded.extend_from_slice(&v2);
                            let big = al.new_atom(&padded).unwrap();
                            al.new_substr(big, 9, 9 + v2.len() as u32).unwrap()
                        }
                        _ => {
                            let mut pieces: Vec<NodePtr> = vec![];
                            for b in v2.iter() {
                                let x = al.new_atom(&[*b, 0xaa]).unwrap();
                                pieces.push(al.new_substr(x, 0, 1).unwrap());
                            }
                            al.new_concat(v2.len(), &pieces).unwrap()
                        }
                    };
                    match run_program(&mut al, &ChiaDialect::new(ClvmFlags::empty()), p, env, 0) {
                        Ok(red) => format!("Ok(cost {}, {})", red.0, hex(&node_to_bytes(&al, red.1).unwrap_or_default())),
                        Err(e) => format!("Err({e})"),
                    }
                }));
                outs.push(r.unwrap_or_else(|_| "PANIC".to_string()));
            }
            if outs[0] != outs[1] || outs[0] != outs[2] {
                return Some(found(pid, wname, w, format!("environment atom {} given as (a) new_atom, (b) a substring view of a heap atom, (c) a concatenation: (a) {} ; (b) {} ; (c) {}", if value.is_empty() { "nil".to_string() } else { hex(&value) }, outs[0], outs[1], outs[2])));
            }
        }
    }
    None
}


/// C08: an "unaware" node is ChiaDialect with every softfork extension unknown (the guard body is skipped and the declared cost
/// charged) and every 4-byte opcode priced by the unknown-operator rule.  Whenever the aware run succeeds the unaware run must
/// give the same result, cost and allocator counts (pre-hard-fork cost model, consensus mode).
struct Unaware(ChiaDialect);
impl clvmr::dialect::Dialect for Unaware {
    fn quote_kw(&self) -> u32 {
        self.0.quote_kw()
    }
    fn apply_kw(&self) -> u32 {
        self.0.apply_kw()
    }
    fn softfork_kw(&self) -> u32 {
        self.0.softfork_kw()
    }
    fn softfork_extension(&self, _ext: u32) -> clvmr::dialect::OperatorSet {
        clvmr::dialect::OperatorSet::Default
    }
    fn flags(&self) -> ClvmFlags {
        self.0.flags()
    }
    fn gc_candidate(&self, allocator: &Allocator, op: NodePtr) -> bool {
        self.0.gc_candidate(allocator, op)
    }
    fn op(&self, allocator: &mut Allocator, op: NodePtr, args: NodePtr, max_cost: u64, _ext: clvmr::dialect::OperatorSet) -> clvmr::reduction::Response {
        if allocator.atom_len(op) == 4 {
            return clvmr::more_ops::op_unknown(allocator, op, args, max_cost, self.0.flags());
        }
        self.0.op(allocator, op, args, max_cost, clvmr::dialect::OperatorSet::Default)
    }
    fn allow_unknown_ops(&self) -> bool {
        self.0.allow_unknown_ops()
    }
}

fn run_dialect<D: clvmr::dialect::Dialect>(t: &T, d: &D) -> Outcome {
    let mut al = Allocator::new();
    let p = build(&mut al, t);
    let env = al.nil();
    let (a0, p0, h0) = (al.atom_count(), al.pair_count(), al.heap_size());
    match run_program(&mut al, d, p, env, 0) {
        Ok(red) => Outcome { ok: true, cost: red.0, result: hex(&node_to_bytes(&al, red.1).unwrap_or_default()), err: String::new(), atoms: al.atom_count() - a0, pairs: al.pair_count() - p0, heap: al.heap_size() - h0 },
        Err(e) => Outcome { ok: false, cost: 0, result: String::new(), err: format!("{e}"), atoms: al.atom_count() - a0, pairs: al.pair_count() - p0, heap: al.heap_size() - h0 },
    }
}

fn unhex(s: &str) -> Vec<u8> {
    (0..s.len()).step_by(2).map(|i| u8::from_str_radix(&s[i..i + 2], 16).unwrap()).collect()
}

fn unaware_pairs(pid: &str) -> Option<String> {
    // valid signature vectors (op-tests/test-secp-verify.txt of the repository)
    let k1 = (
        unhex("02888b0c110ef0b4962e3fc6929cbba7a8bb25b4b2c885f55c76365018c909b439"),
        unhex("74c2941eb2ebe5aa4f2287a4c5e506a6290c045004058de97a7edf0122548668"),
        unhex("1acb7a6e062e78ccd4237b12c22f02b5a8d9b33cb3ba13c35e88e036baa1cbca75253bb9a96ffc48b43196c69c2972d8f965b1baa4e52348d8081cde65e6c018"),
    );
    let r1 = (
        unhex("0437a1674f3883b7171a11a20140eee014947b433723cf9f181a18fee4fcf96056103b3ff2318f00cca605e6f361d18ff0d2d6b817b1fa587e414f8bb1ab60d2b9"),
        unhex("9f86d081884c7d659a2feaa0c55ad015a3bf4f1b2b0b822cd15d6c15b0f00a08"),
        unhex("e8de121f4cceca12d97527cc957cca64a4bcfc685cffdee051b38ee81cb22d7e2c187fec82c731018ed2d56f08a4a5cbc40c5bfe9ae18c02295bb65e7f605ffc"),
    );
    let mut progs: Vec<(String, T)> = vec![];
    for (prefix, v) in [([0x13u8, 0xd6, 0x1f], &k1), ([0x1c, 0x3a, 0x8f], &r1)] {
        for low in [0x00u8, 0x01, 0x3f, 0x40, 0x41, 0x80, 0xc0, 0xff] {
            let opc = [prefix[0], prefix[1], prefix[2], low];
            progs.push((format!("4-byte opcode {} with a valid signature", hex(&opc)), list(vec![a(&opc), q(a(&v.0)), q(a(&v.1)), q(a(&v.2))])));
        }
        // neighbours of the multiplier
        for delta in [-1i32, 1] {
            let m = (((prefix[0] as u32) << 16 | (prefix[1] as u32) << 8 | prefix[2] as u32) as i32 + delta) as u32;
            let opc = [(m >> 16) as u8, (m >> 8) as u8, m as u8, 0];
            progs.push((format!("4-byte opcode {} with a valid signature", hex(&opc)), list(vec![a(&opc), q(a(&v.0)), q(a(&v.1)), q(a(&v.2))])));
        }
    }
    let bodies: Vec<(&str, u64, T)> = vec![
        ("guard ext 0 around (q . 42)", 0, q(n(42))),
        ("guard ext 0 around allocations", 0, op(4, vec![op(11, vec![q(a(b"hello"))]), op(14, vec![q(a(b"ab")), q(a(b"cdefgh"))])])),
        ("guard ext 0 around coinid / g1 ops", 0, op(51, vec![op(29, vec![])])),
        ("guard ext 1 around keccak256", 1, op(62, vec![q(a(b"foobar"))])),
        ("guard ext 1 around keccak256 + concat", 1, op(14, vec![op(62, vec![q(a(b"foobar"))]), q(a(b"0123456789abcdef"))])),
        ("guard ext 1 around a big sum", 1, op(16, vec![q(a(&[0x7f; 40])), q(a(&[0x7f; 40]))])),
        ("guard ext 2 (unknown to both)", 2, q(n(42))),
    ];
    for (nm, ext, body) in bodies {
        let g = op(36, vec![q(n(1000)), q(n(ext)), q(body.clone()), q(nil())]);
        progs.push((nm.to_string(), g.clone()));
        // the guard's nil result consumed by an enclosing operator, and a guard nested in a guard
        progs.push((format!("{nm}, inside (c . ())"), op(4, vec![g.clone(), q(nil())])));
        progs.push((format!("{nm}, nested in a guard ext 0"), op(36, vec![q(n(1000)), q(n(0)), q(g), q(nil())])));
    }
    for (name, t0) in progs {
        for base in [ClvmFlags::empty(), ClvmFlags::ENABLE_GC, ClvmFlags::LIMIT_HEAP, ClvmFlags::MALACHITE] {
            // declared costs are fixed up (innermost first) so that the AWARE run succeeds
            let t = fix_nested(&t0, base);
            let (t1, t2) = (t.clone(), t.clone());
            let aware = std::panic::catch_unwind(std::panic::AssertUnwindSafe(move || run_dialect(&t1, &ChiaDialect::new(base))));
            let unaware = std::panic::catch_unwind(std::panic::AssertUnwindSafe(move || run_dialect(&t2, &Unaware(ChiaDialect::new(base)))));
            let (Ok(aw), Ok(un)) = (aware, unaware) else {
                return Some(found(pid, &name, &t, format!("flags {:#x}: panic", base.bits())));
            };
            if std::env::var("VREPLAY_DEBUG").is_ok() {
                eprintln!("{name} flags {:#x}: aware {:?} unaware {:?}", base.bits(), aw, un);
            }
            if aw.ok && un != aw {
                return Some(found(pid, &name, &t, format!("flags {:#x}: extension-aware node {:?} ; unaware node {:?}", base.bits(), aw, un)));
            }
        }
    }
    None
}

/// fix_softfork for a guard nested in the body of another guard or in an operator call (innermost first)
fn fix_nested(t: &T, flags: ClvmFlags) -> T {
    fn is_sf(t: &T) -> bool {
        matches!(t, T::P(o, _) if matches!(&**o, T::A(b) if b == &vec![36u8]))
    }
    match t {
        T::P(l, r) if is_sf(t) => {
            // (36 (q . cost) (q . ext) (q . body) (q . ()))
            if let T::P(cost, r2) = &**r {
                if let T::P(ext, r3) = &**r2 {
                    if let T::P(prog, tail) = &**r3 {
                        if let T::P(qk, body) = &**prog {
                            let body2 = fix_nested(body, flags);
                            let with_cost = |c: T| cons(l.as_ref().clone(), cons(c, cons(ext.as_ref().clone(), cons(cons(qk.as_ref().clone(), body2.clone()), tail.as_ref().clone()))));
                            // the body's own cost under the operator set the extension enables
                            let is_ext1 = matches!(&**ext, T::P(_, e) if matches!(&**e, T::A(b) if b == &vec![1u8]));
                            let inner_flags = if is_ext1 { flags | ClvmFlags::ENABLE_KECCAK_OPS_OUTSIDE_GUARD } else { flags };
                            let o = run(&body2, inner_flags, 0);
                            if o.ok {
                                for delta in [140u64, 500] {
                                    let cand = with_cost(q(n(o.cost + delta)));
                                    if run(&cand, flags, 0).ok {
                                        return cand;
                                    }
                                }
                            }
                            return fix_softfork(&with_cost(cost.as_ref().clone()), flags);
                        }
                    }
                }
            }
            t.clone()
        }
        T::P(l, r) => cons(fix_nested(l, flags), fix_nested(r, flags)),
        _ => t.clone(),
    }
}

pub fn search(pid: &str) -> String {
    std::panic::set_hook(Box::new(|_| {}));
    if pid == "C03" {
        if let Some(f) = representation_pairs(pid) {
            return f;
        }
    }
    if pid == "C08" {
        if let Some(f) = unaware_pairs(pid) {
            return f;
        }
    }
    if pid == "C04" || pid == "C13" {
        if let Some(f) = limited_heap_gc(pid) {
            return f;
        }
    }
    let bases = [ClvmFlags::empty(), ClvmFlags::NEW_COST_MODEL, ClvmFlags::MALACHITE];
    let restrictions = [
        ClvmFlags::NO_UNKNOWN_OPS,
        ClvmFlags::CANONICAL_INTS,
        ClvmFlags::DISABLE_OP,
        ClvmFlags::LIMIT_SOFTFORK,
        ClvmFlags::LIMITS,
        ClvmFlags::LIMIT_HEAP,
        clvmr::chia_dialect::MEMPOOL_MODE,
    ];
    let mut cases = 0u64;
    for (name, t0) in corpus() {
        for base in bases {
            let t = fix_softfork(&t0, base);
            let o = run(&t, base, 0);
            cases += 1;
            if o.err == "PANIC" {
                return found(pid, &name, &t, format!("panic under flags {:#x}", base.bits()));
            }
            if pid == "C04" {
                let g0 = run(&t, base | ClvmFlags::ENABLE_GC, 0);
                if g0.err == "PANIC" {
                    return found(pid, &name, &t, format!("panic (dangling result?) under flags {:#x} | ENABLE_GC", base.bits()));
                }
            }
            match pid {
                "C04" => {
                    let g = run(&t, base | ClvmFlags::ENABLE_GC, 0);
                    if g != o {
                        return found(pid, &name, &t, format!("flags {:#x}: without ENABLE_GC {:?}, with {:?}", base.bits(), o, g));
                    }
                }
                "C07" => {
                    if name == "sf-noncanon-ext" {
                        continue; // known finding F3 (listed input)
                    }
                    for r in restrictions {
                        let x = run(&t, base | r, 0);
                        if o.ok && x.ok && (x.cost != o.cost || x.result != o.result) {
                            return found(pid, &name, &t, format!("flags {:#x} vs plus restriction {:#x}: {:?} vs {:?}", base.bits(), r.bits(), o, x));
                        }
                        if !o.ok && x.ok {
                            return found(pid, &name, &t, format!("restriction {:#x} turns a failure under {:#x} into a success: {:?} vs {:?}", r.bits(), base.bits(), o, x));
                        }
                    }
                }
                "C11" => {
                    for extra in [ClvmFlags::empty(), ClvmFlags::DISABLE_OP, ClvmFlags::LIMITS, ClvmFlags::ENABLE_GC] {
                        let x = run(&t0, base | extra | ClvmFlags::NEW_COST_MODEL, 0);
                        let o0 = run(&t0, base | extra, 0);
                        if o0.ok && x.ok && x.result != o0.result {
                            return found(pid, &name, &t0, format!("flags {:#x}: result {} vs {} under NEW_COST_MODEL", (base | extra).bits(), o0.result, x.result));
                        }
                    }
                }
                "C25" => {
                    // totality: no panic and no InternalError, under every flag set of the grid
                    for extra in [ClvmFlags::empty(), ClvmFlags::CANONICAL_INTS, clvmr::chia_dialect::MEMPOOL_MODE, ClvmFlags::ENABLE_GC, ClvmFlags::NO_UNKNOWN_OPS] {
                        let x = run(&t0, base | extra, 0);
                        if x.err == "PANIC" || x.err.to_lowercase().contains("internal error") {
                            return found(pid, &name, &t0, format!("flags {:#x}: {}", (base | extra).bits(), x.err));
                        }
                    }
                }
                "C02" => {
                    // budget 0 means unlimited: it must agree with a budget far above the cost
                    let roomy = run(&t, base, 1u64 << 40);
                    if roomy.ok && roomy != o {
                        return found(pid, &name, &t, format!("flags {:#x}: budget 2^40 gives {:?} but budget 0 (unlimited) gives {:?}", base.bits(), roomy, o));
                    }
                    if o.ok && o.cost > 1 {
                        let exact = run(&t, base, o.cost);
                        let below = run(&t, base, o.cost - 1);
                        if exact != o {
                            return found(pid, &name, &t, format!("flags {:#x}: budget 0 gives {:?} but budget {} gives {:?}", base.bits(), o, o.cost, exact));
                        }
                        if below.ok || !below.err.contains("cost") {
                            return found(pid, &name, &t, format!("flags {:#x}: budget {} (cost - 1) gives {:?}", base.bits(), o.cost - 1, below));
                        }
                        // upward closure: every larger budget (and 0 = unlimited) gives the same outcome
                        for b in [o.cost + 1, 2 * o.cost, 1u64 << 40, u64::MAX - 1000, u64::MAX - 1, u64::MAX] {
                            let x = run(&t, base, b);
                            if x != o {
                                return found(pid, &name, &t, format!("flags {:#x}: budget 0 gives {:?} but the larger budget {} gives {:?}", base.bits(), o, b, x));
                            }
                        }
                    }
                }
                "C31" | "C08" => {
                    if name.starts_with("sf-") && o.ok {
                        let plain = run(&q(n(42)), base, 0);
                        // a completed guard yields nil and leaves the counters of a run that allocated nothing else
                        if !name.contains("in-eq") && (o.result != "80" || o.heap != plain.heap - 0 && false) {
                            return found(pid, &name, &t, format!("flags {:#x}: guard result {}", base.bits(), o.result));
                        }
                        let q42 = fix_softfork(&op(36, vec![q(n(1000)), q(n(0)), q(q(n(42))), q(nil())]), base);
                        let r42 = run(&q42, base, 0);
                        if name == "sf-alloc" && r42.ok && (o.atoms != r42.atoms || o.pairs != r42.pairs || o.heap != r42.heap) {
                            return found(pid, &name, &t, format!("flags {:#x}: counters after the guard {:?} vs a guard around (q . 42) {:?}", base.bits(), o, r42));
                        }
                    }
                }
                _ => {}
            }
        }
    }
    // ---- nesting depth of softfork guards (C31): with LIMIT_SOFTFORK 20 nested guards run, 21 fail; without the flag both run
    if pid == "C31" {
        for base in [ClvmFlags::empty(), ClvmFlags::NEW_COST_MODEL] {
            for ext in [0u64, 1] {
                let mut t = q(n(42));
                for depth in 1..=22u32 {
                    t = fix_softfork(&op(36, vec![q(n(1000)), q(n(ext)), q(t.clone()), q(nil())]), base);
                    if depth < 19 {
                        continue;
                    }
                    cases += 1;
                    let free = run(&t, base, 0);
                    let lim = run(&t, base | ClvmFlags::LIMIT_SOFTFORK, 0);
                    if !free.ok {
                        break; // the corpus program itself could not be built for this flag set
                    }
                    let name = format!("{depth} nested softfork guards, extension {ext}");
                    if depth <= 20 && lim != free {
                        return found(pid, &name, &t, format!("flags {:#x}: without LIMIT_SOFTFORK {:?}, with it {:?}", base.bits(), free, lim));
                    }
                    if depth > 20 && (lim.ok || !lim.err.contains("depth")) {
                        return found(pid, &name, &t, format!("flags {:#x} | LIMIT_SOFTFORK: {} nested guards give {:?} (expected: softfork stack depth exceeded)", base.bits(), depth, lim));
                    }
                }
            }
        }
    }
    format!("{{\"found\":false,\"finder\":\"program-corpus\",\"cases\":{cases}}}")
}
