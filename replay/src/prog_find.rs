//! Program-level differential finder (C02 C04 C07 C11 C31): a small corpus of CLVM programs is run
//! on the REAL interpreter under pairs of flag sets / budgets and the clauses of the properties are
//! compared directly.  It only attaches a concrete input to an obligation the verifier already
//! failed (or to an undecided run); it never decides a property by itself.
use clvmr::allocator::{Allocator, NodePtr};
use clvmr::chia_dialect::{ChiaDialect, ClvmFlags};
use clvmr::run_program::run_program;
use clvmr::serde::node_to_bytes;

fn hex(b: &[u8]) -> String {
    b.iter().map(|x| format!("{x:02x}")).collect()
}

#[derive(Clone)]
enum T {
    A(Vec<u8>),
    P(Box<T>, Box<T>),
}

fn a(b: &[u8]) -> T {
    T::A(b.to_vec())
}
fn n(v: u64) -> T {
    if v == 0 {
        return T::A(vec![]);
    }
    let mut b = v.to_be_bytes().to_vec();
    while b.len() > 1 && b[0] == 0 {
        b.remove(0);
    }
    if b[0] & 0x80 != 0 {
        b.insert(0, 0);
    }
    T::A(b)
}
fn nil() -> T {
    T::A(vec![])
}
fn cons(l: T, r: T) -> T {
    T::P(Box::new(l), Box::new(r))
}
fn list(items: Vec<T>) -> T {
    let mut l = nil();
    for i in items.into_iter().rev() {
        l = cons(i, l);
    }
    l
}
fn q(x: T) -> T {
    cons(n(1), x)
}
fn op(code: u64, args: Vec<T>) -> T {
    let mut v = vec![n(code)];
    v.extend(args);
    list(v)
}
fn build(al: &mut Allocator, t: &T) -> NodePtr {
    match t {
        T::A(b) => al.new_atom(b).unwrap(),
        T::P(l, r) => {
            let l = build(al, l);
            let r = build(al, r);
            al.new_pair(l, r).unwrap()
        }
    }
}

#[derive(PartialEq, Clone, Debug)]
struct Outcome {
    ok: bool,
    cost: u64,
    result: String,
    err: String,
    atoms: usize,
    pairs: usize,
    heap: usize,
}

fn run(t: &T, flags: ClvmFlags, budget: u64) -> Outcome {
    let t2 = t.clone();
    let r = std::panic::catch_unwind(std::panic::AssertUnwindSafe(move || run_inner(&t2, flags, budget)));
    match r {
        Ok(o) => o,
        Err(_) => Outcome { ok: false, cost: 0, result: String::new(), err: "PANIC".into(), atoms: 0, pairs: 0, heap: 0 },
    }
}

fn run_inner(t: &T, flags: ClvmFlags, budget: u64) -> Outcome {
    let mut al = Allocator::new();
    let p = build(&mut al, t);
    let env = al.nil();
    let (a0, p0, h0) = (al.atom_count(), al.pair_count(), al.heap_size());
    match run_program(&mut al, &ChiaDialect::new(flags), p, env, budget) {
        Ok(red) => Outcome { ok: true, cost: red.0, result: hex(&node_to_bytes(&al, red.1).unwrap_or_default()), err: String::new(), atoms: al.atom_count() - a0, pairs: al.pair_count() - p0, heap: al.heap_size() - h0 },
        Err(e) => Outcome { ok: false, cost: 0, result: String::new(), err: format!("{e}"), atoms: al.atom_count() - a0, pairs: al.pair_count() - p0, heap: al.heap_size() - h0 },
    }
}

fn corpus() -> Vec<(String, T)> {
    let mut c: Vec<(String, T)> = vec![];
    let big = vec![0x55u8; 600];
    let mut add = |name: &str, t: T| c.push((name.to_string(), t));
    add("quote", q(n(42)));
    add("path-1", n(1));
    add("sha256", op(11, vec![q(a(b"abc")), q(a(&big))]));
    add("sha256-1-5", op(11, vec![q(n(1)), q(n(5))]));
    add("concat", op(14, vec![q(a(b"hello")), q(a(b"world!"))]));
    add("concat-big", op(14, vec![q(a(&big)), q(a(&big))]));
    add("strlen", op(13, vec![q(a(&big))]));
    add("add", op(16, vec![q(n(255)), q(n(1)), q(n(70000))]));
    add("sub", op(17, vec![q(n(5)), q(n(7))]));
    add("mul", op(18, vec![q(n(300)), q(n(70000))]));
    add("mul-padded", op(18, vec![q(a(&[0x00, 0x80])), q(n(2))]));
    add("mul-padded-zeros", op(18, vec![q(a(&[0, 0, 0, 7])), q(a(&[0x7f, 0xff]))]));
    add("div", op(19, vec![q(n(1000)), q(n(7))]));
    add("divmod", op(20, vec![q(n(1000)), q(n(7))]));
    add("mod", op(61, vec![q(n(1000)), q(n(7))]));
    add("modpow", op(60, vec![q(n(2)), q(n(10)), q(n(1000))]));
    add("logand-empty", op(24, vec![q(a(&[0, 0xff])), q(nil())]));
    add("if-substr", op(3, vec![op(12, vec![q(a(b"0123456789")), q(n(3)), q(n(3))]), q(n(10)), q(n(20))]));
    add("not", op(32, vec![q(nil())]));
    add("any", op(33, vec![q(nil()), q(n(1)), q(nil())]));
    add("all", op(34, vec![q(n(1)), q(nil())]));
    add("eq", op(9, vec![q(a(b"x")), q(a(b"x"))]));
    add("listp", op(7, vec![q(cons(n(1), n(2)))]));
    add("cons-first-rest", op(5, vec![op(4, vec![q(n(7)), q(n(8))])]));
    add("apply", op(2, vec![q(op(16, vec![n(1), q(n(3))])), q(n(39))]));
    add("gc-sha-concat", op(11, vec![op(14, vec![q(a(&big)), q(a(&big))])]));
    add("gc-concat-sha", op(14, vec![op(11, vec![q(a(b"abc"))]), op(11, vec![op(14, vec![q(a(&big)), q(a(&big))])])]));
    add("sha256tree-63", op(63, vec![q(cons(n(1), n(2)))]));
    add("keccak-62", op(62, vec![q(a(b"foobar"))]));
    add("unknown-op", list(vec![a(&[0x33, 0x00, 0x32, 0xc0]), q(a(&big))]));
    add("secp-bad", list(vec![a(&[0x13, 0xd6, 0x1f, 0x00]), q(n(1)), q(n(2)), q(n(3))]));
    add("secp-cf1", list(vec![a(&[0x13, 0xd6, 0x1f, 0x40]), q(n(1)), q(n(2)), q(n(3))]));
    // softfork guards: declared cost = 140 (guard) + inner cost, computed by a dry run below
    for (nm, ext, inner) in [
        ("sf-q", 0u64, q(n(42))),
        ("sf-alloc", 0, op(4, vec![op(11, vec![q(a(b"hello"))]), op(14, vec![q(a(b"ab")), q(a(b"cdefgh"))])])),
        ("sf-ext1", 1, q(n(42))),
        ("sf-unknown-ext", 5, q(n(42))),
    ] {
        for declared in [0u64, 1] {
            // declared == 0: placeholder, fixed up to the exact cost by the caller of the finder
            let _ = declared;
        }
        c.push((nm.to_string(), op(36, vec![q(n(1000)), q(n(ext)), q(inner.clone()), q(nil())])));
    }
    // malformed / unusual shapes (totality)
    c.push(("sf-one-arg-zero".into(), op(36, vec![q(a(&[0x00]))])));
    c.push(("sf-no-args".into(), op(36, vec![])));
    c.push(("op-is-list-of-list".into(), list(vec![list(vec![list(vec![n(1)])])])));
    c.push(("op-is-list-of-list-arg".into(), list(vec![list(vec![list(vec![n(1)])]), n(2)])));
    c.push(("apply-no-args".into(), op(2, vec![])));
    c.push(("path-into-atom".into(), n(7)));
    c.push(("improper-args".into(), cons(n(16), n(5))));
    c.push(("sf-noncanon-ext".into(), op(36, vec![q(n(1000)), q(a(&[0x00])), q(nil()), nil()])));
    c.push(("sf-in-eq-gc".into(), op(9, vec![op(36, vec![q(n(1000)), q(n(0)), q(op(4, vec![op(14, vec![q(a(b"aaaaaaaa")), q(a(b"bbbbbbbb"))]), q(nil())])), q(nil())]), q(nil())])));
    c
}

/// the exact declared cost that makes a softfork program succeed (found by reading the mismatch)
fn fix_softfork(t: &T, flags: ClvmFlags) -> T {
    // try declared costs from a dry run: run the inner program alone and add the guard cost
    if let T::P(opc, rest) = t {
        if let T::A(b) = &**opc {
            if b == &vec![36u8] {
                if let T::P(_cost, rest2) = &**rest {
                    if let T::P(_ext, rest3) = &**rest2 {
                        if let T::P(prog, _) = &**rest3 {
                            if let T::P(_q, inner) = &**prog {
                                let o = run(inner, flags, 0);
                                if o.ok {
                                    let guard = if flags.contains(ClvmFlags::NEW_COST_MODEL) { 500 } else { 140 };
                                    for delta in [guard, 140u64, 500] {
                                        let cand = cons(opc.as_ref().clone(), cons(q(n(o.cost + delta)), rest2.as_ref().clone()));
                                        if run(&cand, flags, 0).ok {
                                            return cand;
                                        }
                                    }
                                }
                            }
                        }
                    }
                }
            }
        }
    }
    t.clone()
}

fn found(pid: &str, name: &str, t: &T, what: String) -> String {
    let mut al = Allocator::new();
    let p = build(&mut al, t);
    let ser = hex(&node_to_bytes(&al, p).unwrap_or_default());
    format!("{{\"found\":true,\"finder\":\"program-corpus\",\"property\":\"{pid}\",\"program\":\"{name}\",\"program_hex\":\"{ser}\",\"what\":\"{}\"}}", what.replace('"', "'"))
}

/// C04 / C13 with a LIMITED heap: a guarded sub-program allocates garbage and returns an atom; for every heap limit in a window
/// around the program's own footprint the run with ENABLE_GC must have the same outcome as the run without.  (This is how the
/// interaction of the unchecked heap append of new_substr on an inline parent with the checked re-allocation in
/// maybe_restore_with_node was found; repaired by the fix: commit listed in known_findings.json.)
fn limited_heap_gc(pid: &str) -> Option<String> {
    let big = vec![0x55u8; 700];
    // (a (q . (f (c X G))) 1) and (a (q . (r (c G X))) 1): X is returned, G is garbage of 1400 bytes
    let g = op(14, vec![n(1), n(1)]);
    let xs: Vec<(&str, T)> = vec![
        ("substr of an inline atom", op(12, vec![q(n(128)), q(nil()), q(n(1))])),
        ("substr of a heap atom", op(12, vec![n(1), q(n(3)), q(n(40))])),
        ("sha256", op(11, vec![q(n(1))])),
        ("concat", op(14, vec![q(a(b"abc")), q(a(b"defgh"))])),
        ("small sum", op(16, vec![q(n(70000)), q(n(70000))])),
    ];
    for (xname, x) in xs {
        for order in [0u8, 1] {
            let inner = if order == 0 { op(6, vec![op(4, vec![g.clone(), x.clone()])]) } else { op(5, vec![op(4, vec![x.clone(), g.clone()])]) };
            let prog = op(2, vec![q(inner), n(1)]);
            let mut probe = Allocator::new();
            let _ = build(&mut probe, &prog);
            let _ = probe.new_atom(&big);
            let h0 = probe.heap_size();
            for extra in (0..1500usize).chain([3000usize, 100000]) {
                let limit = h0 + extra;
                let mut outs = vec![];
                for gc in [false, true] {
                    let prog2 = prog.clone();
                    let big2 = big.clone();
                    let r = std::panic::catch_unwind(std::panic::AssertUnwindSafe(move || {
                        let mut al = Allocator::new_limited(limit);
                        let p = build(&mut al, &prog2);
                        let env = al.new_atom(&big2).unwrap();
                        let flags = if gc { ClvmFlags::ENABLE_GC } else { ClvmFlags::empty() };
                        match run_program(&mut al, &ChiaDialect::new(flags), p, env, 0) {
                            Ok(red) => format!("Ok(cost {}, {}) heap_size {}", red.0, hex(&node_to_bytes(&al, red.1).unwrap_or_default()), al.heap_size()),
                            Err(e) => format!("Err({e})"),
                        }
                    }));
                    outs.push(r.unwrap_or_else(|_| "PANIC".to_string()));
                }
                let over = outs[0].rsplit(' ').next().and_then(|h| h.parse::<usize>().ok()).map(|h| h > limit).unwrap_or(false);
                if outs[0] != outs[1] || (pid == "C13" && over) {
                    let name = format!("guarded {xname}, order {order}, heap limit {limit}");
                    return Some(found(pid, &name, &prog, format!("Allocator::new_limited({limit}), env = 700-byte atom: without ENABLE_GC {} ; with ENABLE_GC {}", outs[0], outs[1])));
                }
            }
        }
    }
    None
}

/// C03: pairs of programs that denote the same computation over differently REPRESENTED atoms (an empty atom as a zero-length
/// view of a heap atom vs the inline nil; a small integer built by concat / substr on the heap vs the inline one) must give the
/// same result and the same cost as each other up to the cost of building the operand, so each pair is compared through a
/// wrapper that receives the operand from the environment.
fn representation_pairs(pid: &str) -> Option<String> {
    // wrapper programs over the environment value (path 1)
    let wrappers: Vec<(&str, T)> = vec![
        ("(i 1 (q . 100) (q . 200))", op(3, vec![n(1), q(n(100)), q(n(200))])),
        ("(not 1)", op(32, vec![n(1)])),
        ("(any 1)", op(33, vec![n(1)])),
        ("(all 1 (q . 1))", op(34, vec![n(1), q(n(1))])),
        ("(+ 1 (q . 5))", op(16, vec![n(1), q(n(5))])),
        ("(* 1 (q . 3))", op(18, vec![n(1), q(n(3))])),
        ("(= 1 (q . 7))", op(9, vec![n(1), q(n(7))])),
        ("(> 1 (q . 3))", op(21, vec![n(1), q(n(3))])),
        ("(sha256 1)", op(11, vec![n(1)])),
        ("(strlen 1)", op(13, vec![n(1)])),
        ("(concat 1 1)", op(14, vec![n(1), n(1)])),
        ("(logand 1 (q . 127))", op(24, vec![n(1), q(n(127))])),
        ("(lognot 1)", op(23, vec![n(1)])),
        ("(substr 1 (q . 0) (q . 0))", op(12, vec![n(1), q(nil()), q(nil())])),
    ];
    for (wname, w) in wrappers.iter() {
        for value in [vec![], vec![7u8], vec![0x12, 0x34], vec![0x03, 0xff, 0xff, 0xff]] {
            let mut outs: Vec<String> = vec![];
            for repr in 0..3u8 {
                let w2 = w.clone();
                let v2 = value.clone();
                let r = std::panic::catch_unwind(std::panic::AssertUnwindSafe(move || {
                    let mut al = Allocator::new();
                    let p = build(&mut al, &w2);
                    // the same bytes in three representations
                    let env = match repr {
                        0 => al.new_atom(&v2).unwrap(),
                        1 => {
                            let mut padded = vec![0xeeu8; 9];
                            padded.extend_from_slice(&v2);
                            let big = al.new_atom(&padded).unwrap();
                            al.new_substr(big, 9, 9 + v2.len() as u32).unwrap()
                        }
                        _ => {
                            let mut pieces: Vec<NodePtr> = vec![];
                            for b in v2.iter() {
                                let x = al.new_atom(&[*b, 0xaa]).unwrap();
                                pieces.push(al.new_substr(x, 0, 1).unwrap());
                            }
                            al.new_concat(v2.len(), &pieces).unwrap()
                        }
                    };
                    match run_program(&mut al, &ChiaDialect::new(ClvmFlags::empty()), p, env, 0) {
                        Ok(red) => format!("Ok(cost {}, {})", red.0, hex(&node_to_bytes(&al, red.1).unwrap_or_default())),
                        Err(e) => format!("Err({e})"),
                    }
                }));
                outs.push(r.unwrap_or_else(|_| "PANIC".to_string()));
            }
            if outs[0] != outs[1] || outs[0] != outs[2] {
                return Some(found(pid, wname, w, format!("environment atom {} given as (a) new_atom, (b) a substring view of a heap atom, (c) a concatenation: (a) {} ; (b) {} ; (c) {}", if value.is_empty() { "nil".to_string() } else { hex(&value) }, outs[0], outs[1], outs[2])));
            }
        }
    }
    None
}

pub fn search(pid: &str) -> String {
    std::panic::set_hook(Box::new(|_| {}));
    if pid == "C03" {
        if let Some(f) = representation_pairs(pid) {
            return f;
        }
    }
    if pid == "C04" || pid == "C13" {
        if let Some(f) = limited_heap_gc(pid) {
            return f;
        }
    }
    let bases = [ClvmFlags::empty(), ClvmFlags::NEW_COST_MODEL, ClvmFlags::MALACHITE];
    let restrictions = [
        ClvmFlags::NO_UNKNOWN_OPS,
        ClvmFlags::CANONICAL_INTS,
        ClvmFlags::DISABLE_OP,
        ClvmFlags::LIMIT_SOFTFORK,
        ClvmFlags::LIMITS,
        ClvmFlags::LIMIT_HEAP,
        clvmr::chia_dialect::MEMPOOL_MODE,
    ];
    let mut cases = 0u64;
    for (name, t0) in corpus() {
        for base in bases {
            let t = fix_softfork(&t0, base);
            let o = run(&t, base, 0);
            cases += 1;
            if o.err == "PANIC" {
                return found(pid, &name, &t, format!("panic under flags {:#x}", base.bits()));
            }
            if pid == "C04" {
                let g0 = run(&t, base | ClvmFlags::ENABLE_GC, 0);
                if g0.err == "PANIC" {
                    return found(pid, &name, &t, format!("panic (dangling result?) under flags {:#x} | ENABLE_GC", base.bits()));
                }
            }
            match pid {
                "C04" => {
                    let g = run(&t, base | ClvmFlags::ENABLE_GC, 0);
                    if g != o {
                        return found(pid, &name, &t, format!("flags {:#x}: without ENABLE_GC {:?}, with {:?}", base.bits(), o, g));
                    }
                }
                "C07" => {
                    if name == "sf-noncanon-ext" {
                        continue; // known finding F3 (listed input)
                    }
                    for r in restrictions {
                        let x = run(&t, base | r, 0);
                        if o.ok && x.ok && (x.cost != o.cost || x.result != o.result) {
                            return found(pid, &name, &t, format!("flags {:#x} vs plus restriction {:#x}: {:?} vs {:?}", base.bits(), r.bits(), o, x));
                        }
                        if !o.ok && x.ok {
                            return found(pid, &name, &t, format!("restriction {:#x} turns a failure under {:#x} into a success: {:?} vs {:?}", r.bits(), base.bits(), o, x));
                        }
                    }
                }
                "C11" => {
                    for extra in [ClvmFlags::empty(), ClvmFlags::DISABLE_OP, ClvmFlags::LIMITS, ClvmFlags::ENABLE_GC] {
                        let x = run(&t0, base | extra | ClvmFlags::NEW_COST_MODEL, 0);
                        let o0 = run(&t0, base | extra, 0);
                        if o0.ok && x.ok && x.result != o0.result {
                            return found(pid, &name, &t0, format!("flags {:#x}: result {} vs {} under NEW_COST_MODEL", (base | extra).bits(), o0.result, x.result));
                        }
                    }
                }
                "C25" => {
                    // totality: no panic and no InternalError, under every flag set of the grid
                    for extra in [ClvmFlags::empty(), ClvmFlags::CANONICAL_INTS, clvmr::chia_dialect::MEMPOOL_MODE, ClvmFlags::ENABLE_GC, ClvmFlags::NO_UNKNOWN_OPS] {
                        let x = run(&t0, base | extra, 0);
                        if x.err == "PANIC" || x.err.to_lowercase().contains("internal error") {
                            return found(pid, &name, &t0, format!("flags {:#x}: {}", (base | extra).bits(), x.err));
                        }
                    }
                }
                "C02" => {
                    // budget 0 means unlimited: it must agree with a budget far above the cost
                    let roomy = run(&t, base, 1u64 << 40);
                    if roomy.ok && roomy != o {
                        return found(pid, &name, &t, format!("flags {:#x}: budget 2^40 gives {:?} but budget 0 (unlimited) gives {:?}", base.bits(), roomy, o));
                    }
                    if o.ok && o.cost > 1 {
                        let exact = run(&t, base, o.cost);
                        let below = run(&t, base, o.cost - 1);
                        if exact != o {
                            return found(pid, &name, &t, format!("flags {:#x}: budget 0 gives {:?} but budget {} gives {:?}", base.bits(), o, o.cost, exact));
                        }
                        if below.ok || !below.err.contains("cost") {
                            return found(pid, &name, &t, format!("flags {:#x}: budget {} (cost - 1) gives {:?}", base.bits(), o.cost - 1, below));
                        }
                        // upward closure: every larger budget (and 0 = unlimited) gives the same outcome
                        for b in [o.cost + 1, 2 * o.cost, 1u64 << 40, u64::MAX - 1000, u64::MAX - 1, u64::MAX] {
                            let x = run(&t, base, b);
                            if x != o {
                                return found(pid, &name, &t, format!("flags {:#x}: budget 0 gives {:?} but the larger budget {} gives {:?}", base.bits(), o, b, x));
                            }
                        }
                    }
                }
                "C31" | "C08" => {
                    if name.starts_with("sf-") && o.ok {
                        let plain = run(&q(n(42)), base, 0);
                        // a completed guard yields nil and leaves the counters of a run that allocated nothing else
                        if !name.contains("in-eq") && (o.result != "80" || o.heap != plain.heap - 0 && false) {
                            return found(pid, &name, &t, format!("flags {:#x}: guard result {}", base.bits(), o.result));
                        }
                        let q42 = fix_softfork(&op(36, vec![q(n(1000)), q(n(0)), q(q(n(42))), q(nil())]), base);
                        let r42 = run(&q42, base, 0);
                        if name == "sf-alloc" && r42.ok && (o.atoms != r42.atoms || o.pairs != r42.pairs || o.heap != r42.heap) {
                            return found(pid, &name, &t, format!("flags {:#x}: counters after the guard {:?} vs a guard around (q . 42) {:?}", base.bits(), o, r42));
                        }
                    }
                }
                _ => {}
            }
        }
    }
    // ---- nesting depth of softfork guards (C31): with LIMIT_SOFTFORK 20 nested guards run, 21 fail; without the flag both run
    if pid == "C31" {
        for base in [ClvmFlags::empty(), ClvmFlags::NEW_COST_MODEL] {
            for ext in [0u64, 1] {
                let mut t = q(n(42));
                for depth in 1..=22u32 {
                    t = fix_softfork(&op(36, vec![q(n(1000)), q(n(ext)), q(t.clone()), q(nil())]), base);
                    if depth < 19 {
                        continue;
                    }
                    cases += 1;
                    let free = run(&t, base, 0);
                    let lim = run(&t, base | ClvmFlags::LIMIT_SOFTFORK, 0);
                    if !free.ok {
                        break; // the corpus program itself could not be built for this flag set
                    }
                    let name = format!("{depth} nested softfork guards, extension {ext}");
                    if depth <= 20 && lim != free {
                        return found(pid, &name, &t, format!("flags {:#x}: without LIMIT_SOFTFORK {:?}, with it {:?}", base.bits(), free, lim));
                    }
                    if depth > 20 && (lim.ok || !lim.err.contains("depth")) {
                        return found(pid, &name, &t, format!("flags {:#x} | LIMIT_SOFTFORK: {} nested guards give {:?} (expected: softfork stack depth exceeded)", base.bits(), depth, lim));
                    }
                }
            }
        }
    }
    format!("{{\"found\":false,\"finder\":\"program-corpus\",\"cases\":{cases}}}")
}
