//! BOUNDED stand-ins for functions that are NOT under contract (no proof; a differential check of the real compiled
//! code over a stated finite input set; never counted as proved; decisive only as a refutation with a concrete input).
//!
//! `triples`: parse_triples (src/serde/de_tree.rs; C16 third decoder, C22 fourth tree-hash implementation) against
//! node_from_bytes / the recursive tree hash on: every byte string of length <= 4 over a 14-letter alphabet of
//! format-relevant bytes, every string of length <= 6 with one of three heads, and 3000 mutated serializations of
//! random trees.  Checked: success on exactly the same inputs (panics caught), the root's end offset equals the number of
//! bytes node_from_bytes' tree re-serializes to when the input is canonical, every atom / pair hash equals the
//! recursive definition's.
use crate::alloc_model::Rng;
use clvmr::allocator::{Allocator, NodePtr, SExp};
use clvmr::serde::{node_from_bytes, node_to_bytes, parse_triples, ParsedTriple};
use std::io::Cursor;
use std::panic::{catch_unwind, AssertUnwindSafe};

fn hex(b: &[u8]) -> String {
    b.iter().map(|x| format!("{x:02x}")).collect()
}

const ALPHABET: [u8; 14] = [0x00, 0x01, 0x02, 0x61, 0x7f, 0x80, 0x81, 0x82, 0x83, 0xbf, 0xc0, 0xe0, 0xfe, 0xff];

fn node_hash(a: &Allocator, n: NodePtr) -> [u8; 32] {
    match a.sexp(n) {
        SExp::Atom => clvmr::treehash::tree_hash_atom(a.atom(n).as_ref()),
        SExp::Pair(l, r) => clvmr::treehash::tree_hash_pair(&node_hash(a, l), &node_hash(a, r)),
    }
}

/// pre-order list of the sub-tree hashes of a node (the order parse_triples emits its triples in)
fn preorder_hashes(a: &Allocator, n: NodePtr, out: &mut Vec<[u8; 32]>) {
    out.push(node_hash(a, n));
    if let SExp::Pair(l, r) = a.sexp(n) {
        preorder_hashes(a, l, out);
        preorder_hashes(a, r, out);
    }
}

fn check(input: &[u8]) -> Option<String> {
    let mut a = Allocator::new();
    let node = match catch_unwind(AssertUnwindSafe(|| node_from_bytes(&mut a, input))) {
        Ok(r) => r,
        Err(_) => return Some(format!("node_from_bytes panics on {}", hex(input))),
    };
    for with_hashes in [false, true] {
        let mut cur = Cursor::new(input);
        let pt = match catch_unwind(AssertUnwindSafe(|| parse_triples(&mut cur, with_hashes))) {
            Ok(r) => r,
            Err(_) => return Some(format!("parse_triples(calculate_tree_hashes={with_hashes}) panics on {}", hex(input))),
        };
        if pt.is_ok() != node.is_ok() {
            return Some(format!("decoders disagree on {}: node_from_bytes ok={}, parse_triples ok={}", hex(input), node.is_ok(), pt.is_ok()));
        }
        if let (Ok(n), Ok((triples, hashes))) = (&node, &pt) {
            let consumed = cur.position();
            let end = match triples.first() {
                Some(ParsedTriple::Atom { end, .. }) | Some(ParsedTriple::Pair { end, .. }) => *end,
                None => return Some(format!("parse_triples returns no triple on {}", hex(input))),
            };
            if end != consumed || consumed as usize > input.len() {
                return Some(format!("parse_triples on {}: root end offset {end}, bytes read {consumed}, input has {} bytes", hex(input), input.len()));
            }
            // node_from_bytes ignores trailing bytes too: compare with the length of the re-serialization when the input is canonical
            if let Ok(ser) = node_to_bytes(&a, *n) {
                if input.len() >= ser.len() && input[..ser.len()] == ser[..] && consumed != ser.len() as u64 {
                    return Some(format!("parse_triples consumed {consumed} bytes of {}, the tree serializes to {} bytes", hex(input), ser.len()));
                }
            }
            if with_hashes {
                let mut want = vec![];
                preorder_hashes(&a, *n, &mut want);
                match hashes {
                    None => return Some(format!("parse_triples(.., true) returns no hashes on {}", hex(input))),
                    Some(h) => {
                        if *h != want {
                            let i = h.iter().zip(want.iter()).position(|(x, y)| x != y).unwrap_or(h.len().min(want.len()));
                            return Some(format!("parse_triples tree hashes differ from the recursive definition on {} (sub-tree #{i} in pre-order: {} instead of {})", hex(input), h.get(i).map(|x| hex(x)).unwrap_or_default(), want.get(i).map(|x| hex(x)).unwrap_or_default()));
                        }
                    }
                }
            } else if hashes.is_some() {
                return Some(format!("parse_triples(.., false) returns hashes on {}", hex(input)));
            }
        }
    }
    None
}

pub fn triples(seed: u64) -> String {
    std::panic::set_hook(Box::new(|_| {}));
    let mut cases = 0u64;
    let mut buf: Vec<u8> = vec![];
    fn rec(buf: &mut Vec<u8>, depth: usize, max: usize, cases: &mut u64) -> Option<String> {
        if !buf.is_empty() {
            *cases += 1;
            if let Some(m) = check(buf) {
                return Some(m);
            }
        }
        if depth == max {
            return None;
        }
        for b in ALPHABET {
            buf.push(b);
            if let Some(m) = rec(buf, depth + 1, max, cases) {
                return Some(m);
            }
            buf.pop();
        }
        None
    }
    let done = |m: String, cases: u64| format!("{{\"found\":true,\"finder\":\"bounded stand-in: parse_triples\",\"bounded\":true,\"what\":\"{}\",\"cases\":{cases}}}", m.replace('"', "'"));
    if let Some(m) = rec(&mut buf, 0, 4, &mut cases) {
        return done(m, cases);
    }
    for head in [[0xffu8, 0xff], [0xff, 0x83], [0xff, 0x01]] {
        let mut b = head.to_vec();
        if let Some(m) = rec(&mut b, 2, 6, &mut cases) {
            return done(m, cases);
        }
    }
    // serializations of random trees (atoms up to 70 bytes, so two-byte prefixes occur) and mutations of them
    let mut rng = Rng(seed ^ 0x7219);
    for _ in 0..1500 {
        let mut a = Allocator::new();
        let mut nodes: Vec<NodePtr> = vec![a.nil()];
        for _ in 0..(1 + rng.below(8)) {
            if rng.below(3) == 0 && nodes.len() > 1 {
                let l = nodes[rng.below(nodes.len() as u64) as usize];
                let r = nodes[rng.below(nodes.len() as u64) as usize];
                nodes.push(a.new_pair(l, r).unwrap());
            } else {
                let len = [0usize, 1, 1, 2, 5, 63, 64, 65, 70][rng.below(9) as usize];
                let b: Vec<u8> = (0..len).map(|_| [0u8, 1, 0x7f, 0x80, 0xff, 0x41][rng.below(6) as usize]).collect();
                nodes.push(a.new_atom(&b).unwrap());
            }
        }
        let top = *nodes.last().unwrap();
        let ser = node_to_bytes(&a, top).unwrap();
        cases += 1;
        if let Some(m) = check(&ser) {
            return done(m, cases);
        }
        let mut m2 = ser.clone();
        match rng.below(3) {
            0 => {
                let i = rng.below(m2.len() as u64) as usize;
                m2[i] = ALPHABET[rng.below(14) as usize];
            }
            1 => {
                m2.truncate(rng.below(m2.len() as u64 + 1) as usize);
            }
            _ => m2.push(ALPHABET[rng.below(14) as usize]),
        }
        if !m2.is_empty() {
            cases += 1;
            if let Some(m) = check(&m2) {
                return done(m, cases);
            }
        }
    }
    format!("{{\"found\":false,\"finder\":\"bounded stand-in: parse_triples\",\"bounded\":true,\"bound\":\"all strings of length <= 4 over 14 format-relevant bytes, length <= 6 behind three heads, 1500 random trees and one mutation of each\",\"cases\":{cases}}}")
}

/// `objcache`: the ObjectCache-based implementations (serialized length: C15; tree hash: C22) and the interned tree's hash
/// (C22) against node_to_bytes / the recursive tree hash, on random DAGs (shared sub-trees, atoms at the one-/two-/three-byte
/// length-prefix boundaries).  Bound: 2000 DAGs of at most 40 nodes, expanded size at most 200,000 nodes.
pub fn objcache(seed: u64) -> String {
    use clvmr::serde::{intern_tree, serialized_length, treehash, ObjectCache};
    std::panic::set_hook(Box::new(|_| {}));
    let mut rng = Rng(seed ^ 0x0bca);
    let mut cases = 0u64;
    let done = |m: String, cases: u64| format!("{{\"found\":true,\"finder\":\"bounded stand-in: object cache\",\"bounded\":true,\"what\":\"{}\",\"cases\":{cases}}}", m.replace('"', "'"));
    for round in 0..2000u32 {
        let mut a = Allocator::new();
        let mut nodes: Vec<NodePtr> = vec![a.nil()];
        let mut sizes: Vec<u64> = vec![1];
        let mut desc: Vec<String> = vec!["()".to_string()];
        for _ in 0..(1 + rng.below(5)) {
            let len = [0usize, 1, 1, 2, 63, 64, 65, 0x1fff, 0x2000, 0x2001, 300][rng.below(if round % 50 == 0 { 11 } else { 7 }) as usize];
            let fill = [0u8, 1, 0x7f, 0x80, 0xff][rng.below(5) as usize];
            nodes.push(a.new_atom(&vec![fill; len]).unwrap());
            sizes.push(1);
            desc.push(format!("{len}x{fill:02x}"));
        }
        for _ in 0..(1 + rng.below(35)) {
            let li = rng.below(nodes.len() as u64) as usize;
            let ri = (nodes.len() - 1).saturating_sub(rng.below(4) as usize);
            if sizes[li] + sizes[ri] > 200_000 {
                continue;
            }
            let (li, ri) = if rng.below(2) == 0 { (li, ri) } else { (ri, li) };
            nodes.push(a.new_pair(nodes[li], nodes[ri]).unwrap());
            sizes.push(sizes[li] + sizes[ri] + 1);
            desc.push(format!("(#{li} . #{ri})"));
        }
        let top = *nodes.last().unwrap();
        let shape = desc.join(" ");
        cases += 1;
        let r = catch_unwind(AssertUnwindSafe(|| {
            let want_hash = node_hash(&a, top);
            let ser = node_to_bytes(&a, top).ok();
            let mut lc: ObjectCache<u64> = ObjectCache::new(serialized_length);
            let got_len = lc.get_or_calculate(&a, &top, None).copied();
            if let Some(s) = &ser {
                if got_len != Some(s.len() as u64) {
                    return Some(format!("object-cache serialized length {:?}, node_to_bytes produces {} bytes", got_len, s.len()));
                }
            }
            let mut hc = ObjectCache::new(treehash);
            let got_hash = hc.get_or_calculate(&a, &top, None).map(|h| *h);
            if got_hash.map(|h| h.to_vec()) != Some(want_hash.to_vec()) {
                return Some("object-cache tree hash differs from the recursive definition".to_string());
            }
            match intern_tree(&a, top) {
                Ok(t) => {
                    if t.tree_hash() != want_hash {
                        return Some("tree hash of the interned tree differs from the recursive definition".to_string());
                    }
                    if let Some(s) = &ser {
                        if node_to_bytes(&t.allocator, t.root).ok().as_ref() != Some(s) {
                            return Some("the interned tree serializes differently from the original".to_string());
                        }
                    }
                }
                Err(e) => return Some(format!("intern_tree failed: {e:?}")),
            }
            None
        }));
        match r {
            Err(_) => return done(format!("panic on the tree built as: {shape}"), cases),
            Ok(Some(m)) => return done(format!("{m}; tree built as: {shape}"), cases),
            Ok(None) => {}
        }
    }
    format!("{{\"found\":false,\"finder\":\"bounded stand-in: object cache\",\"bounded\":true,\"bound\":\"2000 random DAGs of at most 40 nodes (expanded size <= 200,000), atom lengths at the 1/2/3-byte prefix boundaries\",\"cases\":{cases}}}")
}

/// wrap a finder's JSON result as a bounded stand-in result
pub fn mark_bounded(json: String, bound: &str) -> String {
    let inner = json.trim();
    if let Some(rest) = inner.strip_prefix('{') {
        format!("{{\"bounded\":true,\"bound\":\"{bound}\",{rest}")
    } else {
        json
    }
}
