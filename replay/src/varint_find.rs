//! Failing-input finder for C21 (serde_2026 varints) on the real compiled functions.
use crate::alloc_model::Rng;
use clvmr::serde_2026::{read_varint, write_varint};

fn spec_size(v: i64) -> usize {
    for k in 1..=8usize {
        let bits = 7 * k as u32;
        if v >= -(1i64 << (bits - 1)) && v <= (1i64 << (bits - 1)) - 1 {
            return k;
        }
    }
    9
}

fn denoted(buf: &[u8]) -> Option<(i64, usize)> {
    let ones = buf.first()?.leading_ones() as usize;
    if ones >= 8 || buf.len() < ones + 1 {
        return None;
    }
    let bits = 7 * (ones as u32 + 1);
    let mut u: u64 = (buf[0] & (0xffu16 >> (ones + 1)) as u8) as u64;
    for b in &buf[1..=ones] {
        u = (u << 8) | *b as u64;
    }
    let v = if u >= (1u64 << (bits - 1)) { u as i64 - (1i64 << bits) } else { u as i64 };
    Some((v, ones + 1))
}

fn hex(b: &[u8]) -> String {
    b.iter().map(|x| format!("{x:02x}")).collect()
}

fn check_value(v: i64) -> Option<String> {
    let mut out: Vec<u8> = vec![];
    let r = std::panic::catch_unwind(move || {
        let mut o = vec![];
        write_varint(&mut o, v).map(|_| o)
    });
    match r {
        Ok(Ok(o)) => out = o,
        _ => return Some(format!("{{\"found\":true,\"finder\":\"varint\",\"value\":{v},\"observed\":\"write_varint panicked or failed\"}}")),
    }
    if out.len() != spec_size(v) {
        return Some(format!("{{\"found\":true,\"finder\":\"varint\",\"value\":{v},\"encoded\":\"{}\",\"observed\":\"{} bytes\",\"expected\":\"shortest encoding has {} bytes\"}}", hex(&out), out.len(), spec_size(v)));
    }
    for strict in [true, false] {
        let o2 = out.clone();
        let r = std::panic::catch_unwind(move || {
            let mut s = &o2[..];
            let back = read_varint(&mut s, strict);
            (back.ok(), s.len())
        });
        let (back, left) = match r {
            Ok(x) => x,
            Err(_) => return Some(format!("{{\"found\":true,\"finder\":\"varint\",\"value\":{v},\"encoded\":\"{}\",\"strict\":{strict},\"observed\":\"read_varint panicked\"}}", hex(&out))),
        };
        if back != Some(v) || left != 0 {
            return Some(format!("{{\"found\":true,\"finder\":\"varint\",\"value\":{v},\"encoded\":\"{}\",\"strict\":{strict},\"observed\":\"decodes to {:?} leaving {} bytes\"}}", hex(&out), back, left));
        }
    }
    None
}

fn check_bytes(buf: &[u8]) -> Option<String> {
    for strict in [true, false] {
        let b2 = buf.to_vec();
        let r = std::panic::catch_unwind(move || {
            let mut s = &b2[..];
            let r = read_varint(&mut s, strict);
            (r.ok(), b2.len() - s.len())
        });
        let (got, used) = match r {
            Ok(x) => x,
            Err(_) => return Some(format!("{{\"found\":true,\"finder\":\"varint\",\"bytes\":\"{}\",\"strict\":{strict},\"observed\":\"read_varint panicked\"}}", hex(buf))),
        };
        let want = denoted(buf).filter(|(v, n)| !strict || spec_size(*v) == *n);
        let ok = match (got, want) {
            (Some(g), Some((v, n))) => g == v && used == n,
            (None, None) => true,
            _ => false,
        };
        if !ok {
            return Some(format!("{{\"found\":true,\"finder\":\"varint\",\"bytes\":\"{}\",\"strict\":{strict},\"observed\":\"{got:?} consuming {used}\",\"expected\":\"{want:?} (value, bytes consumed)\"}}", hex(buf)));
        }
    }
    None
}

pub fn search(seed: u64) -> String {
    let mut rng = Rng(seed ^ 0x21);
    let mut cases = 0u64;
    // boundaries of every size class, both signs, +-3
    for k in 1..=8u32 {
        let bits = 7 * k;
        for base in [-(1i64 << (bits - 1)), (1i64 << (bits - 1)) - 1] {
            for d in -3i64..=3 {
                let v = base + d;
                if v >= -(1i64 << 55) && v < (1i64 << 55) {
                    cases += 1;
                    if let Some(f) = check_value(v) {
                        return f;
                    }
                }
            }
        }
    }
    for v in -300i64..=300 {
        cases += 1;
        if let Some(f) = check_value(v) {
            return f;
        }
    }
    for _ in 0..200_000 {
        let bits = 1 + rng.below(55);
        let v = (rng.next() as i64) >> (63 - bits as i64).max(8);
        cases += 1;
        if let Some(f) = check_value(v) {
            return f;
        }
    }
    // decode side: all 1- and 2-byte inputs, then random with every prefix length and interesting payloads
    for a in 0..=255u8 {
        cases += 1;
        if let Some(f) = check_bytes(&[a]) {
            return f;
        }
        for b in 0..=255u8 {
            cases += 1;
            if let Some(f) = check_bytes(&[a, b]) {
                return f;
            }
        }
    }
    for _ in 0..300_000 {
        let ones = rng.below(9) as u32;
        let first = if ones >= 8 { 0xff } else { ((0xff00u16 >> ones) as u8) | ((rng.next() as u8) & (0x7fu8 >> ones)) };
        let mut buf = vec![first];
        let n = rng.below(9) as usize;
        for _ in 0..n {
            buf.push([0u8, 0xff, 0x80, 0x7f, 0x40, 0x3f][rng.below(6) as usize] ^ if rng.below(3) == 0 { rng.next() as u8 } else { 0 });
        }
        cases += 1;
        if let Some(f) = check_bytes(&buf) {
            return f;
        }
    }
    format!("{{\"found\":false,\"finder\":\"varint\",\"cases\":{cases}}}")
}
