//! C10/C22/C23 finder for sha256tree: small trees (with shared sub-trees) through the real
//! op_sha256_tree, compared with the documented cost formula over the fully expanded tree and with
//! the recursive hash definition.
use clvmr::allocator::{Allocator, NodePtr, SExp};
use clvmr::chia_dialect::ClvmFlags;
use clvmr::sha_tree_op::op_sha256_tree;
use clvmr::treehash::{tree_hash_atom, tree_hash_pair};

fn expect(a: &Allocator, n: NodePtr, cpb: u64) -> (u64, [u8; 32]) {
    match a.sexp(n) {
        SExp::Atom => {
            let b = a.atom(n);
            ((b.as_ref().len() as u64 + 1) * cpb, tree_hash_atom(b.as_ref()))
        }
        SExp::Pair(l, r) => {
            let (cl, hl) = expect(a, l, cpb);
            let (cr, hr) = expect(a, r, cpb);
            (460 + cl + cr, tree_hash_pair(&hl, &hr))
        }
    }
}

pub fn search(_seed: u64) -> String {
    let mut cases = 0u64;
    for flags in [ClvmFlags::empty(), ClvmFlags::NEW_COST_MODEL] {
        let cpb = if flags.contains(ClvmFlags::NEW_COST_MODEL) { 6 } else { 2 };
        let mut a = Allocator::new();
        let mut pool: Vec<NodePtr> = vec![a.nil(), a.one()];
        pool.push(a.new_atom(&[0x80]).unwrap());
        pool.push(a.new_atom(&[7u8; 40]).unwrap());
        // non-canonical one- and two-byte atoms (stored on the heap, never inline)
        pool.push(a.new_atom(&[0x00]).unwrap());
        pool.push(a.new_atom(&[0x00, 0x05]).unwrap());
        pool.push(a.new_atom(&[0x00, 0x24]).unwrap());
        pool.push(a.new_small_number(36).unwrap());
        pool.push(a.new_small_number(37).unwrap());
        // grow a pool of trees; every new pair may reuse earlier nodes (shared sub-trees)
        let mut i = 0usize;
        while pool.len() < 40 {
            let l = pool[(i * 7 + 3) % pool.len()];
            let r = pool[(i * 5 + 1) % pool.len()];
            pool.push(a.new_pair(l, r).unwrap());
            let last = *pool.last().unwrap();
            pool.push(a.new_pair(last, last).unwrap());
            i += 1;
        }
        for &t in &pool {
            cases += 1;
            let (c, h) = expect(&a, t, cpb);
            if c > 50_000_000 {
                continue;
            }
            let want_cost = 270 + c + 320;
            let args = a.new_pair(t, NodePtr::NIL).unwrap();
            match op_sha256_tree(&mut a, args, u64::MAX / 4, flags) {
                Ok(r) => {
                    let got = a.atom(r.1).as_ref().to_vec();
                    if r.0 != want_cost || got != h.to_vec() {
                        return format!("{{\"found\":true,\"finder\":\"sha256tree\",\"new_cost_model\":{},\"cost\":{},\"expected_cost\":{},\"hash_matches\":{},\"tree_case\":{cases}}}", cpb == 6, r.0, want_cost, got == h.to_vec());
                    }
                }
                Err(e) => {
                    return format!("{{\"found\":true,\"finder\":\"sha256tree\",\"error\":\"{e:?}\",\"tree_case\":{cases}}}");
                }
            }
        }
    }
    format!("{{\"found\":false,\"finder\":\"sha256tree\",\"cases\":{cases}}}")
}
