//! Failing-input finder for the allocator properties (C12 accounting, C13 limits, C14 immutability /
//! canonical integers / atom equality, C04 value-preserving restore).
//!
//! A reference model written from the property statements ("as if every atom were a separately
//! stored byte string") is driven with the same random operation sequence as the REAL
//! `clvmr::Allocator`; the first disagreement is reported with the full sequence so that it can be
//! replayed.  This is not a deciding step: the contracts decide; this turns a failed (or
//! undecidable) obligation into a concrete input.  Known finding F1 is mirrored (and flagged), not
//! reported.
use clvmr::allocator::{Allocator, NodePtr, SExp};

const MAX_ATOMS: usize = 62_500_000;
const MAX_PAIRS: usize = 62_500_000;

pub struct Rng(pub u64);
impl Rng {
    pub fn next(&mut self) -> u64 {
        // splitmix64
        self.0 = self.0.wrapping_add(0x9e3779b97f4a7c15);
        let mut z = self.0;
        z = (z ^ (z >> 30)).wrapping_mul(0xbf58476d1ce4e5b9);
        z = (z ^ (z >> 27)).wrapping_mul(0x94d049bb133111eb);
        z ^ (z >> 31)
    }
    pub fn below(&mut self, n: u64) -> u64 {
        if n == 0 {
            0
        } else {
            self.next() % n
        }
    }
}

#[derive(Clone, Debug)]
enum MVal {
    Atom(Vec<u8>),
    Pair(usize, usize), // indices into Model.nodes
}

#[derive(Clone)]
struct MNode {
    real: NodePtr,
    val: MVal,
    inline: bool, // created as an inline small atom (survives every restore)
    origin: usize, // model index at which this REAL handle first appeared (aliases share it)
}

#[derive(Clone, Copy, Debug, PartialEq)]
struct Counts {
    atoms: usize,
    pairs: usize,
    heap: usize,
}

struct Model {
    nodes: Vec<MNode>,
    counts: Counts,
    limit: usize,
    f1_seen: bool,
}

fn minimal_small(b: &[u8]) -> Option<u32> {
    // property C14: minimal encoding of a value below 2^26
    if b.len() > 4 {
        return None;
    }
    let mut v: u64 = 0;
    for x in b {
        v = (v << 8) | *x as u64;
    }
    if v >= (1 << 26) {
        return None;
    }
    if enc_u64(v) == b {
        Some(v as u32)
    } else {
        None
    }
}

fn enc_u64(v: u64) -> Vec<u8> {
    // minimal two's complement encoding of a non-negative value
    if v == 0 {
        return vec![];
    }
    let mut out = v.to_be_bytes().to_vec();
    while out.len() > 1 && out[0] == 0 && out[1] < 0x80 {
        out.remove(0);
    }
    if out[0] >= 0x80 {
        out.insert(0, 0);
    }
    out
}

fn enc_i64(v: i64) -> Vec<u8> {
    if v >= 0 {
        return enc_u64(v as u64);
    }
    let mut out = v.to_be_bytes().to_vec();
    while out.len() > 1 && out[0] == 0xff && out[1] >= 0x80 {
        out.remove(0);
    }
    out
}

fn hex(b: &[u8]) -> String {
    b.iter().map(|x| format!("{x:02x}")).collect()
}

pub struct Outcome {
    pub found: bool,
    pub what: String,
    pub trace: Vec<String>,
    pub f1_seen: bool,
    pub ops: usize,
}

impl Model {
    fn bytes(&self, i: usize) -> Option<&Vec<u8>> {
        match &self.nodes[i].val {
            MVal::Atom(b) => Some(b),
            _ => None,
        }
    }
}

fn real_counts(a: &Allocator) -> Counts {
    Counts { atoms: a.atom_count(), pairs: a.pair_count(), heap: a.heap_size() }
}

/// compare every live node of the model with the real allocator (C14: immutability)
fn check_nodes(a: &Allocator, m: &Model) -> Option<String> {
    for (i, n) in m.nodes.iter().enumerate() {
        match &n.val {
            MVal::Atom(b) => {
                if !matches!(a.sexp(n.real), SExp::Atom) {
                    return Some(format!("node #{i} was an atom {} and is now a pair", hex(b)));
                }
                if a.atom(n.real).as_ref() != b.as_slice() {
                    return Some(format!("node #{i}: bytes changed: expected {} got {}", hex(b), hex(a.atom(n.real).as_ref())));
                }
                if a.atom_len(n.real) != b.len() {
                    return Some(format!("node #{i}: atom_len {} != {}", a.atom_len(n.real), b.len()));
                }
                if a.small_number(n.real) != minimal_small(b) {
                    return Some(format!("node #{i} ({}): small_number {:?} but the minimal-encoding rule gives {:?}", hex(b), a.small_number(n.real), minimal_small(b)));
                }
            }
            MVal::Pair(l, r) => match a.sexp(n.real) {
                SExp::Pair(rl, rr) => {
                    if rl != m.nodes[*l].real || rr != m.nodes[*r].real {
                        return Some(format!("node #{i}: children of a pair changed"));
                    }
                }
                SExp::Atom => return Some(format!("node #{i} was a pair and is now an atom")),
            },
        }
    }
    None
}

pub fn run(seed: u64, steps: usize, limit: usize) -> Outcome {
    let mut rng = Rng(seed);
    let mut a = Allocator::new_limited(limit);
    let mut m = Model { nodes: vec![], counts: Counts { atoms: 2, pairs: 0, heap: 1 }, limit, f1_seen: false };
    let mut trace: Vec<String> = vec![format!("Allocator::new_limited({limit})")];
    // (checkpoint, model snapshot)
    let mut cps: Vec<(clvmr::allocator::Checkpoint, Vec<MNode>, Counts)> = vec![];
    let mut tcps: Vec<(clvmr::allocator::TransparentCheckpoint, usize)> = vec![];
    macro_rules! fail {
        ($($t:tt)*) => {
            return Outcome { found: true, what: format!($($t)*), trace, f1_seen: m.f1_seen, ops: 0 }
        };
    }
    if real_counts(&a) != m.counts {
        fail!("fresh allocator reports {:?}, expected {:?}", real_counts(&a), m.counts);
    }
    for step in 0..steps {
        let op = rng.below(100);
        let pick = |rng: &mut Rng, m: &Model| -> Option<usize> {
            if m.nodes.is_empty() {
                None
            } else {
                Some(rng.below(m.nodes.len() as u64) as usize)
            }
        };
        let pick_atom = |rng: &mut Rng, m: &Model| -> Option<usize> {
            let c: Vec<usize> = (0..m.nodes.len()).filter(|i| matches!(m.nodes[*i].val, MVal::Atom(_))).collect();
            if c.is_empty() {
                None
            } else {
                Some(c[rng.below(c.len() as u64) as usize])
            }
        };
        let before = m.counts;
        if op < 18 {
            // ---- new_atom with interesting bytes
            let kind = rng.below(8);
            let bytes: Vec<u8> = match kind {
                0 => vec![],
                1 => vec![rng.below(256) as u8],
                2 => {
                    let n = 1 + rng.below(5) as usize;
                    (0..n).map(|_| [0u8, 0x7f, 0x80, 0xff, 1, 3, 4][rng.below(7) as usize]).collect()
                }
                3 => enc_u64([0x7f, 0x80, 0x7fff, 0x8000, 0x3ffffff, 0x4000000, 0x7fffff, 0x800000][rng.below(8) as usize]),
                4 => (0..(1100 + rng.below(200) as usize)).map(|i| i as u8).collect(),
                _ => (0..rng.below(12) as usize).map(|_| rng.below(256) as u8).collect(),
            };
            trace.push(format!("n{} = new_atom({})", m.nodes.len(), hex(&bytes)));
            let r = a.new_atom(&bytes);
            let over_heap = before.heap + bytes.len() > m.limit;
            let over_atoms = before.atoms == MAX_ATOMS;
            match r {
                Ok(n) => {
                    if over_heap || over_atoms {
                        fail!("step {step}: new_atom succeeded although completing it exceeds a cap (heap {}+{} limit {}, atoms {})", before.heap, bytes.len(), m.limit, before.atoms);
                    }
                    m.counts.atoms += 1;
                    m.counts.heap += bytes.len();
                    let inline = minimal_small(&bytes).is_some();
                    let o = m.nodes.len(); m.nodes.push(MNode { real: n, val: MVal::Atom(bytes), inline, origin: o });
                }
                Err(e) => {
                    if !(over_heap || over_atoms) {
                        fail!("step {step}: new_atom failed with {e:?} although no cap would be exceeded");
                    }
                }
            }
        } else if op < 26 {
            // ---- integers
            let which = rng.below(3);
            let v: i64 = match rng.below(6) {
                0 => [0i64, 1, 0x7f, 0x80, 0xff, 0x100, 0x7fff, 0x8000, 0x7fffff, 0x800000, 0x3ffffff, 0x4000000, 0x7fffffff, 0x80000000][rng.below(14) as usize],
                1 => -[1i64, 0x7f, 0x80, 0x81, 0x100, 0x7fff, 0x8000, 0x8001, 0x800000, 0x800001, 0x80000000, 0x80000001][rng.below(12) as usize],
                2 => 1i64 << rng.below(63),
                3 => -(1i64 << rng.below(63)),
                4 => (1i64 << rng.below(63)) - 1,
                _ => rng.next() as i64,
            };
            let (r, want, name) = match which {
                0 if v >= 0 => (a.new_u64(v as u64), enc_u64(v as u64), "new_u64"),
                1 => (a.new_i64(v), enc_i64(v), "new_i64"),
                _ => (a.new_number(v.into()), enc_i64(v), "new_number"),
            };
            trace.push(format!("n{} = {name}({v})", m.nodes.len()));
            let over = before.heap + want.len() > m.limit || before.atoms == MAX_ATOMS;
            match r {
                Ok(n) => {
                    if over {
                        fail!("step {step}: {name} succeeded although a cap would be exceeded");
                    }
                    if a.atom(n).as_ref() != want.as_slice() {
                        fail!("step {step}: {name}({v}) stored {} but the minimal two's-complement encoding is {}", hex(a.atom(n).as_ref()), hex(&want));
                    }
                    let back: clvmr::number::Number = a.number(n);
                    if back != v.into() {
                        fail!("step {step}: {name}({v}) reads back as {back}");
                    }
                    m.counts.atoms += 1;
                    m.counts.heap += want.len();
                    let inline = minimal_small(&want).is_some();
                    let o = m.nodes.len(); m.nodes.push(MNode { real: n, val: MVal::Atom(want), inline, origin: o });
                }
                Err(e) => {
                    if !over {
                        fail!("step {step}: {name}({v}) failed with {e:?} although no cap would be exceeded");
                    }
                }
            }
        } else if op < 36 {
            // ---- new_pair
            if let (Some(l), Some(r)) = (pick(&mut rng, &m), pick(&mut rng, &m)) {
                trace.push(format!("n{} = new_pair(n{l}, n{r})", m.nodes.len()));
                let res = a.new_pair(m.nodes[l].real, m.nodes[r].real);
                match res {
                    Ok(n) => {
                        if before.pairs == MAX_PAIRS {
                            fail!("step {step}: new_pair succeeded at the pair cap");
                        }
                        m.counts.pairs += 1;
                        let o = m.nodes.len(); m.nodes.push(MNode { real: n, val: MVal::Pair(l, r), inline: false, origin: o });
                    }
                    Err(e) => {
                        if before.pairs != MAX_PAIRS {
                            fail!("step {step}: new_pair failed with {e:?} below the cap");
                        }
                    }
                }
            }
        } else if op < 50 {
            // ---- new_substr
            if let Some(p) = pick_atom(&mut rng, &m) {
                let pb = m.bytes(p).unwrap().clone();
                let len = pb.len() as u32;
                let (s, e) = match rng.below(6) {
                    0 => (0, len),
                    1 => (len + 1, len + 1),
                    2 => (0, len + 1),
                    _ => {
                        let s = rng.below(len as u64 + 1) as u32;
                        let e = s + rng.below((len - s) as u64 + 1) as u32;
                        (s, e)
                    }
                };
                trace.push(format!("n{} = new_substr(n{p}, {s}, {e})", m.nodes.len()));
                // a slice of an INLINE parent that is not itself a minimal small integer is materialised on the heap (known
                // finding F1 for the C12 accounting); since the fix: commit it is subject to the heap limit like new_atom
                let parent_inline0 = a.small_number(m.nodes[p].real).is_some() && a.node(m.nodes[p].real).is_u32();
                let materialised = parent_inline0 && s <= e && e <= len && minimal_small(&pb[s as usize..e as usize]).is_none();
                let oom = materialised && before.atoms != MAX_ATOMS && before.heap + (e - s) as usize > m.limit;
                let res = a.new_substr(m.nodes[p].real, s, e);
                let bad = before.atoms == MAX_ATOMS || s > len || e > len || e < s || oom;
                match res {
                    Ok(n) => {
                        if bad {
                            fail!("step {step}: new_substr succeeded on invalid bounds / at the atom cap");
                        }
                        let sub = pb[s as usize..e as usize].to_vec();
                        if a.atom(n).as_ref() != sub.as_slice() {
                            fail!("step {step}: new_substr value {} expected {}", hex(a.atom(n).as_ref()), hex(&sub));
                        }
                        m.counts.atoms += 1;
                        // known finding F1: inline parent + non-minimal slice materialises bytes
                        let parent_inline = a.small_number(m.nodes[p].real).is_some() && a.node(m.nodes[p].real).is_u32();
                        if parent_inline && minimal_small(&sub).is_none() {
                            m.f1_seen = true;
                            m.counts.heap += sub.len();
                        }
                        let inline = minimal_small(&sub).is_some() && parent_inline;
                        let o = m.nodes.len(); m.nodes.push(MNode { real: n, val: MVal::Atom(sub), inline, origin: o });
                    }
                    Err(e2) => {
                        if !bad {
                            fail!("step {step}: new_substr failed with {e2:?} on valid bounds");
                        }
                    }
                }
            }
        } else if op < 64 {
            // ---- new_concat
            let k = [0usize, 1, 1, 2, 2, 3, 5][rng.below(7) as usize];
            let mut idx = vec![];
            for _ in 0..k {
                if let Some(p) = pick_atom(&mut rng, &m) {
                    idx.push(p);
                }
            }
            let total: usize = idx.iter().map(|i| m.bytes(*i).unwrap().len()).sum();
            let size = if rng.below(10) == 0 { total + 1 } else { total };
            trace.push(format!("n{} = new_concat({size}, [{}])", m.nodes.len(), idx.iter().map(|i| format!("n{i}")).collect::<Vec<_>>().join(",")));
            let nodes: Vec<NodePtr> = idx.iter().map(|i| m.nodes[*i].real).collect();
            let res = a.new_concat(size, &nodes);
            let bad = before.atoms == MAX_ATOMS || before.heap + size > m.limit || size != total;
            match res {
                Ok(n) => {
                    if bad {
                        fail!("step {step}: new_concat succeeded although it must fail (heap {}+{size} limit {}, total {total})", before.heap, m.limit);
                    }
                    let mut cat = vec![];
                    for i in &idx {
                        cat.extend_from_slice(m.bytes(*i).unwrap());
                    }
                    if a.atom(n).as_ref() != cat.as_slice() {
                        fail!("step {step}: new_concat value {} expected {}", hex(a.atom(n).as_ref()), hex(&cat));
                    }
                    m.counts.atoms += 1;
                    m.counts.heap += size;
                    let inline = idx.len() == 1 && m.nodes[idx[0]].inline || idx.is_empty();
                    // a one-term concat returns the SAME handle as its operand
                    let o = if idx.len() == 1 { m.nodes[idx[0]].origin } else { m.nodes.len() };
                    m.nodes.push(MNode { real: n, val: MVal::Atom(cat), inline, origin: o });
                }
                Err(e2) => {
                    if !bad {
                        fail!("step {step}: new_concat failed with {e2:?} although size matches and no cap is exceeded");
                    }
                }
            }
        } else if op < 68 {
            // ---- ghost counters
            let amount = [0usize, 1, 2, 7][rng.below(4) as usize];
            if rng.below(2) == 0 {
                trace.push(format!("add_ghost_atom({amount})"));
                let r = a.add_ghost_atom(amount);
                if r.is_ok() != (before.atoms + amount <= MAX_ATOMS) {
                    fail!("step {step}: add_ghost_atom({amount}) returned {r:?} at count {}", before.atoms);
                }
                if r.is_ok() {
                    m.counts.atoms += amount;
                }
            } else {
                trace.push(format!("add_ghost_pair({amount})"));
                let r = a.add_ghost_pair(amount);
                if r.is_ok() != (before.pairs + amount <= MAX_PAIRS) {
                    fail!("step {step}: add_ghost_pair({amount}) returned {r:?} at count {}", before.pairs);
                }
                if r.is_ok() {
                    m.counts.pairs += amount;
                }
            }
        } else if op < 72 {
            // ---- jump close to a cap so that the exact failure conditions are exercised
            match rng.below(3) {
                0 if before.atoms < MAX_ATOMS - 3 => {
                    let amount = MAX_ATOMS - before.atoms - rng.below(3) as usize;
                    trace.push(format!("add_ghost_atom({amount})"));
                    if a.add_ghost_atom(amount).is_err() {
                        fail!("step {step}: add_ghost_atom({amount}) failed below the cap");
                    }
                    m.counts.atoms += amount;
                }
                1 if before.pairs < MAX_PAIRS - 3 => {
                    let amount = MAX_PAIRS - before.pairs - rng.below(3) as usize;
                    trace.push(format!("add_ghost_pair({amount})"));
                    if a.add_ghost_pair(amount).is_err() {
                        fail!("step {step}: add_ghost_pair({amount}) failed below the cap");
                    }
                    m.counts.pairs += amount;
                }
                _ => {}
            }
        } else if op < 78 {
            // ---- full checkpoint / restore
            if cps.len() < 3 && rng.below(2) == 0 {
                trace.push("cp = checkpoint()".to_string());
                cps.push((a.checkpoint(), m.nodes.clone(), m.counts));
            } else if let Some((cp, nodes, counts)) = cps.pop() {
                trace.push("restore_checkpoint(cp)".to_string());
                a.restore_checkpoint(&cp);
                // inline atoms stay valid; everything else created later is gone
                m.nodes = nodes;
                m.counts = counts;
                tcps.retain(|(_, n)| *n <= m.nodes.len());
            }
        } else if op < 90 {
            // ---- transparent checkpoint / restore / value-preserving restore
            if tcps.len() < 3 && rng.below(2) == 0 {
                trace.push("tcp = transparent_checkpoint()".to_string());
                tcps.push((a.transparent_checkpoint(), m.nodes.len()));
            } else if let Some((tcp, keep)) = tcps.pop() {
                // full checkpoints taken after this transparent one are no longer restorable
                cps.retain(|(_, nodes, _)| nodes.len() <= keep);
                if rng.below(3) == 0 || m.nodes.len() == keep {
                    trace.push("restore_transparent_checkpoint(tcp)".to_string());
                    a.restore_transparent_checkpoint(&tcp);
                    m.nodes.truncate(keep);
                } else {
                    let i = keep + rng.below((m.nodes.len() - keep) as u64) as usize;
                    let i = if rng.below(4) == 0 { rng.below(m.nodes.len() as u64) as usize } else { i };
                    trace.push(format!("maybe_restore_with_node(tcp, n{i})"));
                    let kept = m.nodes[i].clone();
                    match a.maybe_restore_with_node(&tcp, kept.real) {
                        Err(e) => fail!("step {step}: maybe_restore_with_node returned {e:?}"),
                        Ok(clvmr::allocator::MaybeRestore::Aborted) => {
                            tcps.push((tcp, keep));
                        }
                        Ok(clvmr::allocator::MaybeRestore::NoReplace) => {
                            // restore performed and the node is declared to predate the checkpoint
                            if kept.origin >= keep && !kept.inline {
                                fail!("step {step}: maybe_restore_with_node returned NoReplace for n{i}, which was created after the checkpoint and is not an inline atom: the handle now dangles");
                            }
                            m.nodes.truncate(keep);
                            if i >= keep {
                                m.nodes.push(kept);
                            }
                        }
                        Ok(clvmr::allocator::MaybeRestore::Replace(n)) => {
                            m.nodes.truncate(keep);
                            let val = kept.val.clone();
                            if let MVal::Atom(b) = &val {
                                if a.atom(n).as_ref() != b.as_slice() {
                                    fail!("step {step}: Replace node has bytes {} expected {}", hex(a.atom(n).as_ref()), hex(b));
                                }
                            } else {
                                fail!("step {step}: Replace returned for a pair");
                            }
                            let o = m.nodes.len(); let inline = a.node(n).is_u32(); m.nodes.push(MNode { real: n, val, inline, origin: o });
                        }
                    }
                }
            }
        } else {
            // ---- atom_eq against byte equality
            if let (Some(x), Some(y)) = (pick_atom(&mut rng, &m), pick_atom(&mut rng, &m)) {
                let eq = a.atom_eq(m.nodes[x].real, m.nodes[y].real);
                if eq != (m.bytes(x) == m.bytes(y)) {
                    trace.push(format!("atom_eq(n{x}, n{y})"));
                    fail!("step {step}: atom_eq(n{x}={}, n{y}={}) = {eq}", hex(m.bytes(x).unwrap()), hex(m.bytes(y).unwrap()));
                }
            }
        }
        // ---- after every operation: counts and all live nodes
        let rc = real_counts(&a);
        if rc != m.counts {
            fail!("step {step}: counts after `{}`: allocator reports {:?}, reference model {:?}", trace.last().unwrap(), rc, m.counts);
        }
        if rc.atoms > MAX_ATOMS || rc.pairs > MAX_PAIRS {
            fail!("step {step}: count cap exceeded: {:?}", rc);
        }
        if rc.heap > m.limit.max(1) {
            fail!("step {step}: heap_size {} exceeds heap_limit {}", rc.heap, m.limit);
        }
        if step % 4 == 0 {
            if let Some(w) = check_nodes(&a, &m) {
                fail!("step {step}: after `{}`: {w}", trace.last().unwrap());
            }
        }
    }
    Outcome { found: false, what: String::new(), trace: vec![], f1_seen: m.f1_seen, ops: steps }
}

trait IsU32 {
    fn is_u32(&self) -> bool;
}
impl IsU32 for clvmr::allocator::NodeVisitor<'_> {
    fn is_u32(&self) -> bool {
        matches!(self, clvmr::allocator::NodeVisitor::U32(_))
    }
}

pub fn search(seed: u64, runs: usize) -> String {
    let mut total_ops = 0;
    for k in 0..runs {
        let s = seed.wrapping_mul(1000003).wrapping_add(k as u64);
        let limit = [40usize, 200, 3000, 100_000, u32::MAX as usize][(k % 5) as usize];
        let o = run(s, 120, limit);
        total_ops += o.ops;
        if o.found {
            let trace = o.trace.iter().map(|t| format!("\"{}\"", t.replace('"', "'"))).collect::<Vec<_>>().join(",");
            return format!(
                "{{\"found\":true,\"finder\":\"alloc-model\",\"seed\":{s},\"heap_limit\":{limit},\"what\":\"{}\",\"trace\":[{trace}]}}",
                o.what.replace('"', "'")
            );
        }
    }
    format!("{{\"found\":false,\"finder\":\"alloc-model\",\"runs\":{runs},\"operations\":{total_ops}}}")
}
