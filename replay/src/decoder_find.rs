//! C16 finder: enumerate short byte strings over an alphabet of format-relevant bytes and compare
//! the classic decoders on the REAL code: node_from_bytes, tree_hash_from_stream (panics caught),
//! and the tree hash of the decoded node.  Reports the first disagreement as a concrete input.
use clvmr::allocator::Allocator;
use clvmr::serde::{node_from_bytes, tree_hash_from_stream};
use std::io::Cursor;
use std::panic::{catch_unwind, AssertUnwindSafe};

fn hex(b: &[u8]) -> String {
    b.iter().map(|x| format!("{x:02x}")).collect()
}

const ALPHABET: [u8; 14] = [0x00, 0x01, 0x02, 0x61, 0x7f, 0x80, 0x81, 0x82, 0x83, 0xbf, 0xc0, 0xe0, 0xfe, 0xff];

fn node_hash(a: &Allocator, n: clvmr::allocator::NodePtr) -> [u8; 32] {
    match a.sexp(n) {
        clvmr::allocator::SExp::Atom => clvmr::treehash::tree_hash_atom(a.atom(n).as_ref()),
        clvmr::allocator::SExp::Pair(l, r) => clvmr::treehash::tree_hash_pair(&node_hash(a, l), &node_hash(a, r)),
    }
}

fn check(input: &[u8]) -> Option<String> {
    let mut a = Allocator::new();
    let node = catch_unwind(AssertUnwindSafe(|| node_from_bytes(&mut a, input)));
    let mut cur = Cursor::new(input);
    let th = catch_unwind(AssertUnwindSafe(|| tree_hash_from_stream(&mut cur)));
    let node_ok = match &node {
        Err(_) => return Some(format!("node_from_bytes panics on {}", hex(input))),
        Ok(r) => r.is_ok(),
    };
    let th_ok = match &th {
        Err(_) => return Some(format!("tree_hash_from_stream panics on {}", hex(input))),
        Ok(r) => r.is_ok(),
    };
    if node_ok != th_ok {
        return Some(format!("decoders disagree on {}: node_from_bytes ok={node_ok}, tree_hash_from_stream ok={th_ok}", hex(input)));
    }
    if node_ok {
        let n = node.unwrap().unwrap();
        let want = clvmr::serde::node_to_bytes(&a, n).map(|b| b.len() as u64).unwrap_or(u64::MAX);
        let h1 = th.unwrap().unwrap();
        let h2 = node_hash(&a, n);
        if h1 != h2 {
            return Some(format!("tree_hash_from_stream differs from the tree hash of the decoded node on {}", hex(input)));
        }
        // canonical inputs: the consumed length equals the re-serialized length
        let _ = want;
    }
    None
}

pub fn search(_seed: u64) -> String {
    std::panic::set_hook(Box::new(|_| {}));
    let mut cases = 0u64;
    // all strings up to length 4 over the alphabet, then length 5 with a fixed interesting head
    let mut buf: Vec<u8> = vec![];
    fn rec(buf: &mut Vec<u8>, depth: usize, max: usize, cases: &mut u64) -> Option<String> {
        if !buf.is_empty() {
            *cases += 1;
            if let Some(m) = check(buf) {
                return Some(m);
            }
        }
        if depth == max {
            return None;
        }
        for b in ALPHABET {
            buf.push(b);
            if let Some(m) = rec(buf, depth + 1, max, cases) {
                return Some(m);
            }
            buf.pop();
        }
        None
    }
    if let Some(m) = rec(&mut buf, 0, 4, &mut cases) {
        return format!("{{\"found\":true,\"finder\":\"decoder-agreement\",\"what\":\"{}\",\"cases\":{cases}}}", m.replace('"', "'"));
    }
    for head in [[0xffu8, 0xff], [0xff, 0x83], [0xff, 0x01]] {
        let mut b = head.to_vec();
        if let Some(m) = rec(&mut b, 2, 6, &mut cases) {
            return format!("{{\"found\":true,\"finder\":\"decoder-agreement\",\"what\":\"{}\",\"cases\":{cases}}}", m.replace('"', "'"));
        }
    }
    format!("{{\"found\":false,\"finder\":\"decoder-agreement\",\"cases\":{cases}}}")
}
