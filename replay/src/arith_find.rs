//! C06 / C10 / C11 finder for the arithmetic and string operators:
//!  (1) div, divmod, mod, modpow with and without MALACHITE on a grid of argument lists and flag sets
//!      (result bytes, cost, error kind must agree);
//!  (2) multiply, >, >s, div, divmod, mod, lognot, ash, lsh, substr, coinid against the documented cost
//!      formulas and the obvious value semantics, computed here with the bignum LIBRARY only
//!      (clvmr::number::Number is num-bigint's BigInt; no clvmr code is used for the expected values).
//! Reports the first deviation as a concrete input.
use clvmr::allocator::{Allocator, NodePtr, SExp};
use clvmr::chia_dialect::ClvmFlags;
use clvmr::error::EvalErr;
use clvmr::more_ops::{op_add, op_ash, op_coinid, op_div, op_divmod, op_gr, op_gr_bytes, op_logand, op_logior, op_lognot, op_logxor, op_lsh, op_mod, op_modpow, op_multiply, op_substr, op_subtract};
use clvmr::number::Number;
use clvmr::reduction::Response;

type Op = fn(&mut Allocator, NodePtr, u64, ClvmFlags) -> Response;

fn hex(b: &[u8]) -> String {
    b.iter().map(|x| format!("{x:02x}")).collect()
}

fn list(a: &mut Allocator, items: &[NodePtr]) -> NodePtr {
    let mut l = a.nil();
    for &i in items.iter().rev() {
        l = a.new_pair(i, l).unwrap();
    }
    l
}

/// canonical serialization-independent rendering of a result tree
fn render(a: &Allocator, n: NodePtr, out: &mut String) {
    match a.sexp(n) {
        SExp::Atom => out.push_str(&hex(a.atom(n).as_ref())),
        SExp::Pair(l, r) => {
            out.push('(');
            render(a, l, out);
            out.push_str(" . ");
            render(a, r, out);
            out.push(')');
        }
    }
}

fn kind(e: &EvalErr) -> String {
    let s = format!("{e:?}");
    s.split(|c: char| !c.is_alphanumeric()).next().unwrap_or("").to_string()
}

fn outcome(a: &Allocator, r: &Response) -> String {
    match r {
        Ok(red) => {
            let mut s = String::new();
            render(a, red.1, &mut s);
            format!("Ok(cost {}, {})", red.0, s)
        }
        Err(e) => format!("Err({})", kind(e)),
    }
}

fn num(b: &[u8]) -> Number {
    Number::from_signed_bytes_be(b)
}

fn enc(n: &Number) -> Vec<u8> {
    let b = n.to_signed_bytes_be();
    if b == [0u8] {
        vec![]
    } else {
        b
    }
}

fn limbs(n: &Number) -> u64 {
    n.bits().div_ceil(8)
}

fn is_zero(n: &Number) -> bool {
    *n == Number::from(0)
}

fn is_neg(n: &Number) -> bool {
    *n < Number::from(0)
}

/// floor division and modulus from the truncating operators of the library
fn div_mod_floor(x: &Number, y: &Number) -> (Number, Number) {
    let mut q = x / y;
    let mut r = x % y;
    if !is_zero(&r) && (is_neg(&r) != is_neg(y)) {
        q -= Number::from(1);
        r += y;
    }
    (q, r)
}

fn report(finder: &str, op: &str, flags: ClvmFlags, args: &[Vec<u8>], got: String, want: String) -> String {
    let a: Vec<String> = args.iter().map(|b| if b.is_empty() { "nil".to_string() } else { hex(b) }).collect();
    format!(
        "{{\"found\":true,\"finder\":\"{finder}\",\"operator\":\"{op}\",\"flags\":\"{:?}\",\"args\":\"{}\",\"got\":\"{got}\",\"expected\":\"{want}\"}}",
        flags,
        a.join(" ")
    )
}

fn int_atoms() -> Vec<Vec<u8>> {
    let mut v: Vec<Vec<u8>> = vec![
        vec![], vec![1], vec![2], vec![3], vec![7], vec![0x7f], vec![0x80], vec![0xff], vec![0xfe], vec![0x81], vec![0], vec![0, 0], vec![0, 1], vec![0, 0x80],
        vec![0xff, 0xff], vec![0xff, 0x7f], vec![0x7f, 0xff], vec![0x80, 0], vec![1, 0], vec![0, 0, 5], vec![0xff, 0xff, 0xfb], vec![0x03, 0xff, 0xff, 0xff], vec![0x04, 0, 0, 0],
        vec![0x7f, 0xff, 0xff, 0xff], vec![0x80, 0, 0, 0], vec![0, 0x80, 0, 0, 0], vec![0xff, 0x7f, 0xff, 0xff, 0xff], vec![1, 0, 0, 0, 0, 0, 0, 0, 0],
    ];
    for len in [15usize, 16, 17, 31, 32, 33, 64, 127, 128, 255, 256, 257] {
        let mut p = vec![0x5au8; len];
        p[0] = 0x12;
        v.push(p.clone());
        p[0] = 0xf2;
        v.push(p);
    }
    v
}

fn big_atoms() -> Vec<Vec<u8>> {
    let mut v = vec![];
    for len in [1023usize, 1024, 1025, 2048, 2049] {
        let mut p = vec![0x33u8; len];
        p[0] = 0x01;
        v.push(p.clone());
        p[0] = 0x91;
        v.push(p);
    }
    v
}

fn run(op: Op, flags: ClvmFlags, args: &[Vec<u8>], max_cost: u64) -> String {
    let mut a = Allocator::new();
    let nodes: Vec<NodePtr> = args.iter().map(|b| a.new_atom(b).unwrap()).collect();
    let l = list(&mut a, &nodes);
    let r = op(&mut a, l, max_cost, flags);
    outcome(&a, &r)
}

/// (1) the bignum backend must be unobservable
pub fn backend_search(_seed: u64) -> String {
    let mut cases = 0u64;
    let flag_sets = [
        ClvmFlags::empty(),
        ClvmFlags::LIMITS,
        ClvmFlags::DISABLE_OP,
        ClvmFlags::NEW_COST_MODEL,
        ClvmFlags::LIMITS | ClvmFlags::NEW_COST_MODEL,
        ClvmFlags::LIMITS | ClvmFlags::DISABLE_OP,
    ];
    let small = int_atoms();
    let big = big_atoms();
    let ops2: [(&str, Op); 3] = [("div", op_div), ("divmod", op_divmod), ("mod", op_mod)];
    for flags in flag_sets {
        for (name, op) in ops2 {
            // every pair of the small grid, every (big, small) and (small, big) pair, arities 0..3, a pair argument
            let mut lists: Vec<Vec<Vec<u8>>> = vec![vec![], vec![vec![5]], vec![vec![5], vec![3], vec![2]]];
            for x in small.iter() {
                for y in small.iter() {
                    lists.push(vec![x.clone(), y.clone()]);
                }
            }
            for x in big.iter() {
                for y in [vec![7u8], vec![0xf9], vec![], vec![0x12; 300]] {
                    lists.push(vec![x.clone(), y.clone()]);
                    lists.push(vec![y.clone(), x.clone()]);
                }
            }
            for args in lists {
                for max_cost in [u64::MAX / 4, 1500] {
                    cases += 1;
                    let r0 = run(op, flags, &args, max_cost);
                    let r1 = run(op, flags | ClvmFlags::MALACHITE, &args, max_cost);
                    if r0 != r1 {
                        return report("bignum-backends", name, flags, &args, format!("with MALACHITE: {r1}"), format!("without: {r0}")) ;
                    }
                }
            }
            // a pair where an integer is expected
            cases += 1;
            for m in [ClvmFlags::empty(), ClvmFlags::MALACHITE] {
                let mut a = Allocator::new();
                let x = a.new_atom(&[9]).unwrap();
                let p = a.new_pair(x, x).unwrap();
                let l = list(&mut a, &[x, p]);
                let r = op(&mut a, l, u64::MAX / 4, flags | m);
                if !matches!(r, Err(EvalErr::InvalidOpArg(_, _))) {
                    return report("bignum-backends", name, flags | m, &[vec![9]], outcome(&a, &r), "Err(InvalidOpArg) for (9 (9 . 9))".into());
                }
            }
        }
        // modpow: smaller grid (three arguments)
        let mp: Vec<Vec<u8>> = vec![
            vec![], vec![1], vec![2], vec![3], vec![0x7f], vec![0x80], vec![0xff], vec![0xfd], vec![0], vec![0, 0x80], vec![0xff, 0x7f], vec![0, 0, 3], vec![0x12; 17], vec![0xf2; 17], vec![0x21; 256], vec![0x21; 257],
        ];
        for b in mp.iter() {
            for e in mp.iter() {
                for m in mp.iter() {
                    if e.len() > 32 && m.len() > 32 {
                        continue;
                    }
                    let args = vec![b.clone(), e.clone(), m.clone()];
                    for max_cost in [u64::MAX / 4, 20000] {
                        cases += 1;
                        let r0 = run(op_modpow, flags, &args, max_cost);
                        let r1 = run(op_modpow, flags | ClvmFlags::MALACHITE, &args, max_cost);
                        if r0 != r1 {
                            return report("bignum-backends", "modpow", flags, &args, format!("with MALACHITE: {r1}"), format!("without: {r0}"));
                        }
                    }
                }
            }
        }
    }
    format!("{{\"found\":false,\"finder\":\"bignum-backends\",\"cases\":{cases}}}")
}

fn expect_ok(cost: u64, v: &[u8]) -> String {
    format!("Ok(cost {}, {})", cost, hex(v))
}

/// (2) documented cost formulas and values
pub fn cost_search(_seed: u64) -> String {
    let mut cases = 0u64;
    let ints = int_atoms();
    let big = big_atoms();
    for flags in [ClvmFlags::empty(), ClvmFlags::NEW_COST_MODEL, ClvmFlags::MALACHITE, ClvmFlags::NEW_COST_MODEL | ClvmFlags::MALACHITE] {
        let new = flags.contains(ClvmFlags::NEW_COST_MODEL);
        let malachite = flags.contains(ClvmFlags::MALACHITE);
        // ---- multiply: 0..4 operands -------------------------------------------------------------
        if !malachite {
            let mut lists: Vec<Vec<Vec<u8>>> = vec![vec![]];
            for x in ints.iter() {
                lists.push(vec![x.clone()]);
                for y in ints.iter() {
                    lists.push(vec![x.clone(), y.clone()]);
                }
            }
            for (i, x) in ints.iter().enumerate() {
                let y = &ints[(i * 7 + 3) % ints.len()];
                let z = &ints[(i * 11 + 5) % ints.len()];
                let w = &ints[(i * 13 + 1) % ints.len()];
                lists.push(vec![x.clone(), y.clone(), z.clone()]);
                lists.push(vec![x.clone(), y.clone(), z.clone(), w.clone()]);
            }
            for x in big.iter().take(4) {
                lists.push(vec![x.clone(), vec![2]]);
                lists.push(vec![vec![2], x.clone()]);
                lists.push(vec![x.clone(), x.clone()]);
            }
            for args in lists {
                cases += 1;
                let (mut cost, div) = if new { (2000u64, 16u64) } else { (92, 128) };
                let mut total = Number::from(1);
                let mut l0 = 0u64;
                for (i, b) in args.iter().enumerate() {
                    let l1 = b.len() as u64;
                    if i == 0 {
                        total = num(b);
                        l0 = l1;
                        if new {
                            cost += l0 * 6;
                        }
                        continue;
                    }
                    cost += 885 + (l0 + l1) * 6 + (l0 * l1) / div;
                    total *= num(b);
                    l0 = limbs(&total);
                }
                let v = enc(&total);
                let want = expect_ok(cost + 10 * v.len() as u64, &v);
                let got = run(op_multiply, flags, &args, u64::MAX / 4);
                if got != want {
                    return report("arith-costs", "*", flags, &args, got, want);
                }
                // a restriction flag (LIMITS) may turn the call into a failure, never change a success
                let got_l = run(op_multiply, flags | ClvmFlags::LIMITS, &args, u64::MAX / 4);
                if got_l.starts_with("Ok") && got_l != want {
                    return report("arith-costs", "* under LIMITS", flags | ClvmFlags::LIMITS, &args, got_l, want);
                }
            }
        }
        // ---- variadic accumulating operators: + - logand logior logxor --------------------------------
        if !malachite {
            let mut lists: Vec<Vec<Vec<u8>>> = vec![vec![]];
            for x in ints.iter() {
                lists.push(vec![x.clone()]);
                for y in ints.iter() {
                    lists.push(vec![x.clone(), y.clone()]);
                }
            }
            for (i, x) in ints.iter().enumerate() {
                let y = &ints[(i * 7 + 3) % ints.len()];
                let z = &ints[(i * 11 + 5) % ints.len()];
                let w = &ints[(i * 13 + 1) % ints.len()];
                lists.push(vec![x.clone(), y.clone(), z.clone()]);
                lists.push(vec![x.clone(), y.clone(), z.clone(), w.clone()]);
                lists.push(vec![w.clone(), x.clone(), x.clone(), y.clone(), z.clone()]);
            }
            // sums that cross the u64 / i64 boundaries of the small-integer fast paths
            for k in [vec![0x03u8, 0xff, 0xff, 0xff], vec![0x02, 0, 0, 0]] {
                lists.push(vec![k.clone(); 70]);
            }
            lists.push(vec![vec![0x7f, 0xff, 0xff, 0xff, 0xff, 0xff, 0xff, 0xff], vec![1]]);
            lists.push(vec![vec![0x80, 0, 0, 0, 0, 0, 0, 0], vec![1]]);
            lists.push(vec![vec![0, 0xff, 0xff, 0xff, 0xff, 0xff, 0xff, 0xff, 0xff], vec![1], vec![1]]);
            for args in lists.iter() {
                cases += 5;
                // + and -
                for (name, op, sub) in [("+", op_add as Op, false), ("-", op_subtract as Op, true)] {
                    let mut cost = 99u64;
                    let mut total = Number::from(0);
                    for (i, b) in args.iter().enumerate() {
                        let l = b.len() as u64;
                        cost += if new { 500 + 4 * l.max(limbs(&total)) } else { 320 + 3 * l };
                        if sub && i > 0 {
                            total -= num(b);
                        } else {
                            total += num(b);
                        }
                    }
                    let v = enc(&total);
                    let want = expect_ok(cost + 10 * v.len() as u64, &v);
                    let got = run(op, flags, args, u64::MAX / 4);
                    if got != want {
                        return report("arith-costs", name, flags, args, got, want);
                    }
                }
                // logand / logior / logxor
                for (name, op, kind) in [("logand", op_logand as Op, 0), ("logior", op_logior as Op, 1), ("logxor", op_logxor as Op, 2)] {
                    let mut cost = 100u64;
                    let mut acc = if kind == 0 { Number::from(-1) } else { Number::from(0) };
                    for b in args.iter() {
                        let l = b.len() as u64;
                        cost += 264 + 3 * if new { l.max(limbs(&acc)) } else { l };
                        let x = num(b);
                        acc = match kind {
                            0 => &acc & &x,
                            1 => &acc | &x,
                            _ => &acc ^ &x,
                        };
                    }
                    let v = enc(&acc);
                    let want = expect_ok(cost + 10 * v.len() as u64, &v);
                    let got = run(op, flags, args, u64::MAX / 4);
                    if got != want {
                        return report("arith-costs", name, flags, args, got, want);
                    }
                }
            }
        }
        // ---- two-operand operators ---------------------------------------------------------------
        let mut pairs: Vec<(Vec<u8>, Vec<u8>)> = vec![];
        for x in ints.iter() {
            for y in ints.iter() {
                pairs.push((x.clone(), y.clone()));
            }
        }
        for x in big.iter() {
            pairs.push((x.clone(), vec![7]));
            pairs.push((vec![0xf9], x.clone()));
            pairs.push((x.clone(), x.clone()));
        }
        for (x, y) in pairs.iter() {
            let args = vec![x.clone(), y.clone()];
            let (nx, ny) = (num(x), num(y));
            let (lx, ly) = (x.len() as u64, y.len() as u64);
            if !malachite {
                cases += 2;
                // >
                let c = if new { 1000 + 4 * (lx + ly) } else { 498 + 2 * (lx + ly) };
                let want = expect_ok(c, if nx > ny { &[1] } else { &[] });
                let got = run(op_gr, flags, &args, u64::MAX / 4);
                if got != want {
                    return report("arith-costs", ">", flags, &args, got, want);
                }
                // >s
                let want = expect_ok(117 + lx + ly, if x > y { &[1] } else { &[] });
                let got = run(op_gr_bytes, flags, &args, u64::MAX / 4);
                if got != want {
                    return report("arith-costs", ">s", flags, &args, got, want);
                }
            }
            // div / divmod / mod (both backends)
            cases += 3;
            let new_c = 1000 + (lx + ly) * 50 + (lx * ly) / 10;
            if is_zero(&ny) {
                for (name, op) in [("div", op_div as Op), ("divmod", op_divmod as Op), ("mod", op_mod as Op)] {
                    let got = run(op, flags, &args, u64::MAX / 4);
                    if got != "Err(DivisionByZero)" {
                        return report("arith-costs", name, flags, &args, got, "Err(DivisionByZero)".into());
                    }
                }
            } else {
                let (q, r) = div_mod_floor(&nx, &ny);
                let (qb, rb) = (enc(&q), enc(&r));
                let c = if new { new_c } else { 988 + (lx + ly) * 4 };
                let want = expect_ok(c + 10 * qb.len() as u64, &qb);
                let got = run(op_div, flags, &args, u64::MAX / 4);
                if got != want {
                    return report("arith-costs", "/", flags, &args, got, want);
                }
                let want = expect_ok(c + 10 * rb.len() as u64, &rb);
                let got = run(op_mod, flags, &args, u64::MAX / 4);
                if got != want {
                    return report("arith-costs", "%", flags, &args, got, want);
                }
                let c = if new { new_c } else { 1116 + (lx + ly) * 6 };
                let want = format!("Ok(cost {}, ({} . {}))", c + 10 * (qb.len() + rb.len()) as u64, hex(&qb), hex(&rb));
                let got = run(op_divmod, flags, &args, u64::MAX / 4);
                if got != want {
                    return report("arith-costs", "divmod", flags, &args, got, want);
                }
            }
        }
        if malachite {
            continue;
        }
        // ---- lognot ------------------------------------------------------------------------------
        for x in ints.iter().chain(big.iter()) {
            cases += 1;
            let v = enc(&(-num(x) - Number::from(1)));
            let want = expect_ok(331 + 3 * x.len() as u64 + 10 * v.len() as u64, &v);
            let got = run(op_lognot, flags, &[x.clone()], u64::MAX / 4);
            if got != want {
                return report("arith-costs", "lognot", flags, &[x.clone()], got, want);
            }
        }
        // ---- ash / lsh -----------------------------------------------------------------------------
        let shifts: Vec<i64> = vec![0, 1, -1, 7, 8, 9, -7, -8, -9, 63, 64, -64, 1000, -1000, 65535, -65535, 65536, -65536, 0x7fff_ffff, -0x8000_0000];
        for x in ints.iter() {
            if x.len() > 64 {
                continue;
            }
            for &s in shifts.iter() {
                cases += 2;
                let sb = enc(&Number::from(s));
                let args = vec![x.clone(), sb.clone()];
                let too_large = !(-65535..=65535).contains(&s);
                // ash
                let nx = num(x);
                let want = if too_large {
                    "Err(ShiftTooLarge)".to_string()
                } else {
                    let v = if s > 0 { nx.clone() << (s as usize) } else { div_mod_floor(&nx, &(Number::from(1) << ((-s) as usize))).0 };
                    let vb = enc(&v);
                    expect_ok(596 + 3 * (x.len() as u64 + limbs(&v)) + 10 * vb.len() as u64, &vb)
                };
                let got = run(op_ash, flags, &args, u64::MAX / 4);
                if got != want {
                    return report("arith-costs", "ash", flags, &args, got, want);
                }
                // lsh: the first operand is unsigned
                let mut ub = vec![0u8];
                ub.extend_from_slice(x);
                let ux = num(&ub);
                let want = if too_large {
                    "Err(ShiftTooLarge)".to_string()
                } else {
                    let v = if s > 0 { ux.clone() << (s as usize) } else { ux.clone() >> ((-s) as usize) };
                    let vb = enc(&v);
                    expect_ok(277 + 3 * (x.len() as u64 + limbs(&v)) + 10 * vb.len() as u64, &vb)
                };
                let got = run(op_lsh, flags, &args, u64::MAX / 4);
                if got != want {
                    return report("arith-costs", "lsh", flags, &args, got, want);
                }
            }
        }
        // ---- substr ----------------------------------------------------------------------------------
        let strs: Vec<Vec<u8>> = vec![vec![], vec![1], vec![0x41, 0x42], b"foobar".to_vec(), vec![0x80, 0x81, 0x82, 0x83, 0x84], vec![9; 40]];
        let idx: Vec<i64> = vec![0, 1, 2, 3, 5, 6, 7, 39, 40, 41, -1, 128, 0x7fff_ffff, 0x8000_0000, -0x8000_0000];
        for sx in strs.iter() {
            for &i in idx.iter() {
                for j in idx.iter().map(|j| Some(*j)).chain([None]) {
                    cases += 1;
                    let mut args = vec![sx.clone(), enc(&Number::from(i))];
                    if let Some(j) = j {
                        args.push(enc(&Number::from(j)));
                    }
                    let fits = |v: i64| (-0x8000_0000..=0x7fff_ffff).contains(&v);
                    let end = j.unwrap_or(sx.len() as i64);
                    let ok = fits(i) && fits(end) && i >= 0 && end >= 0 && end as usize <= sx.len() && i <= end;
                    let want = if ok { expect_ok(if new { 2000 } else { 1 }, &sx[i as usize..end as usize]) } else { "Err(InvalidOpArg)".to_string() };
                    let got = run(op_substr, flags, &args, u64::MAX / 4);
                    if got != want {
                        return report("arith-costs", "substr", flags, &args, got, want);
                    }
                }
            }
        }
        // ---- coinid: cost and argument validation (the digest is checked through sha256 elsewhere) -------
        let amounts: Vec<(Vec<u8>, bool)> = vec![
            (vec![], true), (vec![1], true), (vec![0x7f], true), (vec![0x80], false), (vec![0], false), (vec![0, 0x80], true), (vec![0, 0x7f], false), (vec![0, 0], false),
            (vec![0x7f, 0xff, 0xff, 0xff, 0xff, 0xff, 0xff, 0xff], true), (vec![0, 0xff, 0xff, 0xff, 0xff, 0xff, 0xff, 0xff, 0xff], true),
            (vec![1, 0, 0, 0, 0, 0, 0, 0, 0], false), (vec![0, 0x80, 0, 0, 0, 0, 0, 0, 0, 0], false),
        ];
        for (am, am_ok) in amounts.iter() {
            for (pl, hl) in [(32usize, 32usize), (31, 32), (32, 33), (0, 32), (32, 0)] {
                cases += 1;
                let args = vec![vec![0x11u8; pl], vec![0x22u8; hl], am.clone()];
                let got = run(op_coinid, flags, &args, u64::MAX / 4);
                let ok = *am_ok && pl == 32 && hl == 32;
                let c: u64 = if new { 1000 + 160 * 3 + 6 * 72 - 153 } else { 87 + 134 * 3 + 2 * 72 - 153 } + 320;
                let good = if ok { got.starts_with(&format!("Ok(cost {c}, ")) && got.len() == format!("Ok(cost {c}, )").len() + 64 } else { got == "Err(InvalidOpArg)" };
                if !good {
                    return report("arith-costs", "coinid", flags, &args, got, if ok { format!("Ok(cost {c}, <32-byte digest>)") } else { "Err(InvalidOpArg)".into() });
                }
            }
        }
    }
    // ---- BLS operators: cost accounting (the group operations themselves are C32) ------------------------
    {
        use clvmr::bls_ops::{op_bls_g1_multiply, op_bls_g1_subtract, op_bls_g2_add, op_bls_g2_multiply, op_bls_map_to_g1, op_bls_map_to_g2};
        use clvmr::more_ops::{op_point_add, op_pubkey_for_exp};
        for flags in [ClvmFlags::empty(), ClvmFlags::NEW_COST_MODEL] {
            let new = flags.contains(ClvmFlags::NEW_COST_MODEL);
            // valid points: pubkey_for_exp of small scalars, map_to_g2 of short messages
            let mut g1s: Vec<Vec<u8>> = vec![];
            let mut g2s: Vec<Vec<u8>> = vec![];
            for k in [1u8, 2, 3] {
                let mut a = Allocator::new();
                let n = a.new_atom(&[k]).unwrap();
                let l = list(&mut a, &[n]);
                match op_pubkey_for_exp(&mut a, l, u64::MAX / 4, flags) {
                    Ok(r) => {
                        let want = 1325730 + 38 + 480;
                        if r.0 != want {
                            return report("arith-costs", "pubkey_for_exp", flags, &[vec![k]], format!("cost {}", r.0), format!("cost {want}"));
                        }
                        g1s.push(a.atom(r.1).as_ref().to_vec());
                    }
                    Err(e) => return report("arith-costs", "pubkey_for_exp", flags, &[vec![k]], format!("Err({})", kind(&e)), "Ok".into()),
                }
                let mut a = Allocator::new();
                let n = a.new_atom(&[k; 5]).unwrap();
                let l = list(&mut a, &[n]);
                if let Ok(r) = op_bls_map_to_g2(&mut a, l, u64::MAX / 4, flags) {
                    g2s.push(a.atom(r.1).as_ref().to_vec());
                }
            }
            // scalar lengths x message / dst lengths
            for len in [0usize, 1, 2, 31, 32, 33, 200] {
                cases += 4;
                let sc = vec![0x17u8; len];
                let (c1, c2) = if new { (1_900_000 + 24 * len as u64, 3_000_000 + 23 * len as u64) } else { (705_500 + 10 * len as u64, 2_100_000 + 5 * len as u64) };
                for (name, op, pt, want, size) in [("g1_multiply", op_bls_g1_multiply as Op, &g1s[0], c1 + 480, 48usize), ("g2_multiply", op_bls_g2_multiply as Op, &g2s[0], c2 + 960, 96usize)] {
                    let args = vec![pt.clone(), sc.clone()];
                    let got = run(op, flags, &args, u64::MAX / 4);
                    if !(got.starts_with(&format!("Ok(cost {want}, ")) && got.len() == format!("Ok(cost {want}, )").len() + 2 * size) {
                        return report("arith-costs", name, flags, &args, got, format!("Ok(cost {want}, <{size}-byte point>)"));
                    }
                }
                for dl in [None, Some(0usize), Some(1), Some(3), Some(43), Some(200)] {
                    let msg = vec![0x61u8; len];
                    let mut args = vec![msg];
                    if let Some(d) = dl {
                        args.push(vec![0x44u8; d]);
                    }
                    let d = dl.unwrap_or(43) as u64;
                    let w1 = if new { 700_000 + 3 * len as u64 + 2 * d } else { 195_000 + 4 * len as u64 + 4 * d } + 480;
                    let w2 = if new { 2_700_000 + 3 * len as u64 + 2 * d } else { 815_000 + 4 * len as u64 + 4 * d } + 960;
                    for (name, op, want, size) in [("g1_map", op_bls_map_to_g1 as Op, w1, 48usize), ("g2_map", op_bls_map_to_g2 as Op, w2, 96usize)] {
                        let got = run(op, flags, &args, u64::MAX / 4);
                        if !(got.starts_with(&format!("Ok(cost {want}, ")) && got.len() == format!("Ok(cost {want}, )").len() + 2 * size) {
                            return report("arith-costs", name, flags, &args, got, format!("Ok(cost {want}, <{size}-byte point>)"));
                        }
                    }
                }
            }
            // variadic point operators: 0..3 operands
            for n_args in 0..=3usize {
                cases += 3;
                let a1: Vec<Vec<u8>> = g1s.iter().take(n_args).cloned().collect();
                let a2: Vec<Vec<u8>> = g2s.iter().take(n_args).cloned().collect();
                for (name, op, args, want, size) in [
                    ("point_add", op_point_add as Op, &a1, 101_094 + 1_343_980 * n_args as u64 + 480, 48usize),
                    ("g1_subtract", op_bls_g1_subtract as Op, &a1, 101_094 + 1_343_980 * n_args as u64 + 480, 48),
                    ("g2_add", op_bls_g2_add as Op, &a2, 80_000 + 1_950_000 * n_args as u64 + 960, 96),
                ] {
                    let got = run(op, flags, args, u64::MAX / 4);
                    if !(got.starts_with(&format!("Ok(cost {want}, ")) && got.len() == format!("Ok(cost {want}, )").len() + 2 * size) {
                        return report("arith-costs", name, flags, args, got, format!("Ok(cost {want}, <{size}-byte point>)"));
                    }
                }
            }
        }
    }
    format!("{{\"found\":false,\"finder\":\"arith-costs\",\"cases\":{cases}}}")
}
