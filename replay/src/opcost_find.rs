//! C10 / C11 / C05 finder: the operators under contract, on a grid of argument lists and both cost
//! models, against the documented cost formulas and the obvious value semantics (written here
//! independently of the crate).  Reports the first deviation as a concrete input.
use clvmr::allocator::{Allocator, NodePtr, SExp};
use clvmr::chia_dialect::ClvmFlags;
use clvmr::core_ops::{op_cons, op_eq, op_first, op_if, op_listp, op_rest};
use clvmr::more_ops::{op_all, op_any, op_concat, op_not, op_sha256, op_strlen};
use clvmr::reduction::Response;
use clvmr::traverse_path::{traverse_path, traverse_path_fast};

fn hex(b: &[u8]) -> String {
    b.iter().map(|x| format!("{x:02x}")).collect()
}

fn list(a: &mut Allocator, items: &[NodePtr]) -> NodePtr {
    let mut l = a.nil();
    for &i in items.iter().rev() {
        l = a.new_pair(i, l).unwrap();
    }
    l
}

fn bytes_of(a: &Allocator, n: NodePtr) -> Option<Vec<u8>> {
    match a.sexp(n) {
        SExp::Atom => Some(a.atom(n).as_ref().to_vec()),
        SExp::Pair(_, _) => None,
    }
}

/// minimal two's-complement big-endian encoding of a non-negative integer
fn int_bytes(v: u64) -> Vec<u8> {
    if v == 0 {
        return vec![];
    }
    let mut b = v.to_be_bytes().to_vec();
    while b.len() > 1 && b[0] == 0 {
        b.remove(0);
    }
    if b[0] & 0x80 != 0 {
        b.insert(0, 0);
    }
    b
}

fn sha256(data: &[u8]) -> Vec<u8> {
    // through the crate's own tree_hash_atom we would hash 1 || data; use op-independent route:
    // clvmr re-exports no plain sha256, so compute via tree_hash_atom on data[1..] when data[0] == 1
    // (only used that way below)
    assert!(!data.is_empty() && data[0] == 1);
    clvmr::treehash::tree_hash_atom(&data[1..]).to_vec()
}

struct Case {
    name: &'static str,
    f: fn(&mut Allocator, NodePtr, u64, ClvmFlags) -> Response,
}

fn report(op: &str, new: bool, args: &[Vec<u8>], what: &str, got: String, want: String) -> String {
    let a: Vec<String> = args.iter().map(|b| hex(b)).collect();
    format!("{{\"found\":true,\"finder\":\"operator-costs\",\"operator\":\"{op}\",\"new_cost_model\":{new},\"args\":\"{}\",\"what\":\"{what}\",\"got\":\"{got}\",\"expected\":\"{want}\"}}", a.join(" "))
}

pub fn search(_seed: u64) -> String {
    let mut cases = 0u64;
    let atoms: Vec<Vec<u8>> = vec![
        vec![], vec![1], vec![0], vec![0x7f], vec![0x80], vec![0, 0x80], vec![0xff], vec![5; 2], vec![9; 31], vec![9; 32], vec![0x41; 127],
        vec![0x41; 128], vec![0x41; 255], vec![0x41; 256], vec![3; 1000],
    ];
    for flags in [ClvmFlags::empty(), ClvmFlags::NEW_COST_MODEL] {
        let new = flags.contains(ClvmFlags::NEW_COST_MODEL);
        // ---- strlen -------------------------------------------------------------------------
        for b in atoms.iter().chain([vec![7u8; 32767], vec![7u8; 32768], vec![7u8; 65536]].iter()) {
            cases += 1;
            let mut a = Allocator::new();
            let n = a.new_atom(b).unwrap();
            let args = list(&mut a, &[n]);
            match op_strlen(&mut a, args, u64::MAX / 4, flags) {
                Ok(r) => {
                    let want_v = int_bytes(b.len() as u64);
                    let want_c = 173 + b.len() as u64 + 10 * want_v.len() as u64;
                    let got_v = bytes_of(&a, r.1).unwrap_or_default();
                    if r.0 != want_c || got_v != want_v {
                        return report("strlen", new, &[b.clone()], "cost/value", format!("cost {} value {}", r.0, hex(&got_v)), format!("cost {want_c} value {}", hex(&want_v)));
                    }
                }
                Err(e) => return report("strlen", new, &[b.clone()], "error", format!("{e:?}"), "Ok".into()),
            }
        }
        // ---- variadic operators on small lists ----------------------------------------------
        for i in 0..atoms.len() {
            for j in 0..atoms.len() {
                for n_args in 0..=3usize {
                    cases += 1;
                    let mut a = Allocator::new();
                    let picks: Vec<Vec<u8>> = [i, j, (i + j) % atoms.len()].iter().take(n_args).map(|&k| atoms[k].clone()).collect();
                    let nodes: Vec<NodePtr> = picks.iter().map(|b| a.new_atom(b).unwrap()).collect();
                    let args = list(&mut a, &nodes);
                    let total: usize = picks.iter().map(|b| b.len()).sum();
                    // concat
                    if let Ok(r) = op_concat(&mut a, args, u64::MAX / 4, flags) {
                        let want_c = 142 + 135 * n_args as u64 + 13 * total as u64;
                        let want_v: Vec<u8> = picks.concat();
                        let got_v = bytes_of(&a, r.1).unwrap_or_default();
                        if r.0 != want_c || got_v != want_v {
                            return report("concat", new, &picks, "cost/value", format!("cost {} value {}", r.0, hex(&got_v)), format!("cost {want_c} value {}", hex(&want_v)));
                        }
                    } else {
                        return report("concat", new, &picks, "error", "Err".into(), "Ok".into());
                    }
                    // sha256
                    if let Ok(r) = op_sha256(&mut a, args, u64::MAX / 4, flags) {
                        let (base, pa, pb) = if new { (1000u64, 160u64, 6u64) } else { (87, 134, 2) };
                        let want_c = base + pa * n_args as u64 + pb * total as u64 + 320;
                        let got_v = bytes_of(&a, r.1).unwrap_or_default();
                        let cat: Vec<u8> = picks.concat();
                        let mut ok_v = true;
                        if !cat.is_empty() && cat[0] == 1 {
                            ok_v = got_v == sha256(&cat);
                        }
                        if r.0 != want_c || !ok_v || got_v.len() != 32 {
                            return report("sha256", new, &picks, "cost/value", format!("cost {} value {}", r.0, hex(&got_v)), format!("cost {want_c}"));
                        }
                    } else {
                        return report("sha256", new, &picks, "error", "Err".into(), "Ok".into());
                    }
                    // any / all
                    for (name, f, want_true) in [
                        ("any", op_any as fn(&mut Allocator, NodePtr, u64, ClvmFlags) -> Response, picks.iter().any(|b| !b.is_empty())),
                        ("all", op_all as fn(&mut Allocator, NodePtr, u64, ClvmFlags) -> Response, picks.iter().all(|b| !b.is_empty())),
                    ] {
                        match f(&mut a, args, u64::MAX / 4, flags) {
                            Ok(r) => {
                                let want_c = 200 + 300 * n_args as u64;
                                let got_v = bytes_of(&a, r.1).unwrap_or_default();
                                let want_v: Vec<u8> = if want_true { vec![1] } else { vec![] };
                                if r.0 != want_c || got_v != want_v {
                                    return report(name, new, &picks, "cost/value", format!("cost {} value {}", r.0, hex(&got_v)), format!("cost {want_c} value {}", hex(&want_v)));
                                }
                            }
                            Err(_) => return report(name, new, &picks, "error", "Err".into(), "Ok".into()),
                        }
                    }
                    // fixed-arity operators
                    let fixed: [Case; 7] = [
                        Case { name: "not", f: op_not },
                        Case { name: "listp", f: op_listp },
                        Case { name: "first", f: op_first },
                        Case { name: "rest", f: op_rest },
                        Case { name: "cons", f: op_cons },
                        Case { name: "eq", f: op_eq },
                        Case { name: "if", f: op_if },
                    ];
                    for c in fixed.iter() {
                        let r = (c.f)(&mut a, args, u64::MAX / 4, flags);
                        let (arity, want): (usize, Option<(u64, Option<Vec<u8>>)>) = match c.name {
                            "not" => (1, Some((200, Some(if picks.first().map(|b| b.is_empty()).unwrap_or(false) { vec![1] } else { vec![] })))),
                            "listp" => (1, Some((if new { 200 } else { 19 }, Some(vec![])))),
                            "first" | "rest" => (1, None), // atoms: must fail
                            "cons" => (2, Some((50, None))),
                            "eq" => (2, Some((117 + picks.iter().take(2).map(|b| b.len() as u64).sum::<u64>(), Some(if n_args >= 2 && picks[0] == picks[1] { vec![1] } else { vec![] })))),
                            "if" => (3, Some((if new { 330 } else { 33 }, Some(if n_args == 3 { if picks[0].is_empty() { picks[2].clone() } else { picks[1].clone() } } else { vec![] })))),
                            _ => unreachable!(),
                        };
                        if n_args != arity {
                            if r.is_ok() {
                                return report(c.name, new, &picks, "arity", "Ok".into(), "Err".into());
                            }
                            continue;
                        }
                        match (r, want) {
                            (Ok(_), None) => return report(c.name, new, &picks, "atom argument", "Ok".into(), "Err".into()),
                            (Err(_), None) => {}
                            (Err(e), Some(_)) => return report(c.name, new, &picks, "error", format!("{e:?}"), "Ok".into()),
                            (Ok(rr), Some((wc, wv))) => {
                                let got_v = bytes_of(&a, rr.1);
                                let v_ok = match (&wv, &got_v) {
                                    (Some(w), Some(g)) => w == g,
                                    (Some(_), None) => false,
                                    (None, _) => true,
                                };
                                if rr.0 != wc || !v_ok {
                                    return report(c.name, new, &picks, "cost/value", format!("cost {} value {:?}", rr.0, got_v.map(|g| hex(&g))), format!("cost {wc} value {:?}", wv.map(|w| hex(&w))));
                                }
                            }
                        }
                    }
                }
            }
        }
    }
    // ---- environment path lookup: inline walk vs byte walk vs the formula -------------------------
    {
        let mut a = Allocator::new();
        let leaf = a.new_atom(&[0x2a]).unwrap();
        let mut env = leaf;
        for _ in 0..40 {
            env = a.new_pair(env, leaf).unwrap();
        }
        let mut vals: Vec<u32> = (0..600).collect();
        for k in [7u32, 8, 15, 16, 23, 24, 25] {
            for d in [0u32, 1, 2] {
                vals.push((1u32 << k).wrapping_sub(1).wrapping_add(d));
                vals.push(1u32 << k | d);
            }
        }
        for v in vals {
            if v >= 0x400_0000 {
                continue;
            }
            cases += 1;
            let bytes = int_bytes(v as u64);
            let fast = traverse_path_fast(&a, v, env);
            let slow = traverse_path(&a, &bytes, env);
            let nbits = 32 - v.leading_zeros() as u64;
            let want_c = if v == 0 { 44 } else { 44 + 4 * (nbits - 1) + if nbits % 8 == 0 { 4 } else { 0 } };
            let f = fast.as_ref().map(|r| (r.0, r.1)).map_err(|e| format!("{e:?}"));
            let s = slow.as_ref().map(|r| (r.0, r.1)).map_err(|e| format!("{e:?}"));
            let agree = match (&f, &s) {
                (Ok(x), Ok(y)) => x.0 == y.0 && (x.1 == y.1) && x.0 == want_c,
                (Err(_), Err(_)) => true,
                _ => false,
            };
            if !agree {
                return format!("{{\"found\":true,\"finder\":\"operator-costs\",\"operator\":\"path lookup\",\"path\":{v},\"inline_walk\":\"{f:?}\",\"byte_walk\":\"{s:?}\",\"expected_cost\":{want_c}}}");
            }
        }
    }
    format!("{{\"found\":false,\"finder\":\"operator-costs\",\"cases\":{cases}}}")
}
