//! Failing-input finder for C09: op_unknown against the opcode cost rule as the property states it
//! (u128 arithmetic).  Inputs in the known-finding class F2 (pre-hard-fork model with an exact
//! product >= 2^64 or >= 4 GiB of operands) are skipped.
use crate::alloc_model::Rng;
use clvmr::allocator::{Allocator, NodePtr};
use clvmr::chia_dialect::ClvmFlags;
use clvmr::more_ops::op_unknown;

#[derive(Debug, PartialEq)]
enum Want {
    Fail,
    Ok(u64),
}

fn spec(op: &[u8], lens: &[Option<usize>], max_cost: u64, new_model: bool) -> (Want, bool) {
    if op.is_empty() || (op.len() >= 2 && op[0] == 0xff && op[1] == 0xff) || op.len() > 5 {
        return (Want::Fail, false);
    }
    let cf = (op[op.len() - 1] & 0xc0) >> 6;
    let mut m: u128 = 0;
    for b in &op[..op.len() - 1] {
        m = (m << 8) | *b as u128;
    }
    if cf != 0 && lens.iter().any(|l| l.is_none()) {
        return (Want::Fail, false);
    }
    let ls: Vec<u128> = lens.iter().map(|l| l.unwrap_or(0) as u128).collect();
    let base: u128 = match cf {
        0 => 1,
        1 => {
            let mut c: u128 = 99;
            let mut acc: u128 = 0;
            for l in &ls {
                if new_model {
                    acc = acc.max(*l);
                    c += 500 + 4 * acc;
                } else {
                    c += 320 + 3 * l;
                }
            }
            c
        }
        2 => {
            let mut c: u128 = if new_model { 2000 } else { 92 };
            let div: u128 = if new_model { 16 } else { 128 };
            let mut l0: u128 = 0;
            for (i, l) in ls.iter().enumerate() {
                if i == 0 {
                    l0 = *l;
                    if new_model {
                        c += 6 * l0;
                    }
                } else {
                    c += 885 + 6 * (l0 + l) + (l0 * l) / div;
                    l0 += l;
                }
            }
            c
        }
        _ => {
            let mut c: u128 = 142;
            for l in &ls {
                c += 135 + 3 * l;
            }
            c
        }
    };
    let total: u128 = ls.iter().sum();
    let product = (m + 1) * base;
    let f2 = !new_model && (product >= (1u128 << 64) || total >= (1u128 << 32));
    if base > max_cost as u128 || product > 0xffff_ffff {
        (Want::Fail, f2)
    } else {
        (Want::Ok(product as u64), f2)
    }
}

fn hex(b: &[u8]) -> String {
    b.iter().map(|x| format!("{x:02x}")).collect()
}

pub fn search(seed: u64) -> String {
    let mut rng = Rng(seed ^ 0x09);
    let mut cases = 0u64;
    let mut skipped = 0u64;
    let divisors: [u64; 8] = [3, 5, 15, 17, 51, 85, 255, 257]; // divisors of 2^32-1: products landing exactly on the cap
    // ---- products that overflow 64 bits: large operands (multiply-like and concat-like cost functions) with the
    // largest multipliers; NEW_COST_MODEL must fail (the pre-hard-fork model is the known-finding class F2, skipped)
    for (l0, l1) in [(524288usize, 524290usize), (1 << 20, 1 << 20), (1 << 21, 3), (70000, 70000)] {
        for m in [0x7fede126u32, 0x7fffffff, 0xfeffffff, 0x80000000, 0x00ffffff, 0x3fffffff] {
            for cf in [1u8, 2, 3] {
                let mut op2: Vec<u8> = m.to_be_bytes().to_vec();
                op2.push(cf << 6);
                let mut a = Allocator::new();
                let n0 = a.new_atom(&vec![0x55u8; l0]).unwrap();
                let n1 = a.new_atom(&vec![0x66u8; l1]).unwrap();
                let nil = a.nil();
                let t = a.new_pair(n1, nil).unwrap();
                let args = a.new_pair(n0, t).unwrap();
                let lens = vec![Some(l0), Some(l1)];
                for new_model in [false, true] {
                    for max_cost in [u64::MAX, 11_000_000_000] {
                        let (want, f2) = spec(&op2, &lens, max_cost, new_model);
                        if f2 {
                            skipped += 1;
                            continue;
                        }
                        let o = a.new_atom(&op2).unwrap();
                        let flags = if new_model { ClvmFlags::NEW_COST_MODEL } else { ClvmFlags::empty() };
                        let got = op_unknown(&mut a, o, args, max_cost, flags);
                        cases += 1;
                        let ok = match (&got, &want) {
                            (Ok(r), Want::Ok(c)) => r.0 == *c && a.atom_len(r.1) == 0,
                            (Err(_), Want::Fail) => true,
                            _ => false,
                        };
                        if !ok {
                            let got_s = match &got { Ok(r) => format!("Ok(cost {})", r.0), Err(e) => format!("Err({e})") };
                            return format!("{{\"found\":true,\"finder\":\"unknown-op\",\"opcode\":\"{}\",\"arg_sizes\":[\"{l0}\",\"{l1}\"],\"max_cost\":{max_cost},\"new_cost_model\":{new_model},\"observed\":\"{got_s}\",\"expected\":\"{want:?}\"}}", hex(&op2));
                        }
                    }
                }
            }
        }
    }
    for round in 0..60_000u64 {
        let mut a = Allocator::new();
        // opcode
        let oplen = [1usize, 1, 2, 2, 3, 4, 5, 5, 6, 0][rng.below(10) as usize];
        let mut op: Vec<u8> = (0..oplen).map(|_| [0u8, 1, 2, 0x33, 0x7f, 0x80, 0xff, 0x10][rng.below(8) as usize] ^ if rng.below(2) == 0 { rng.next() as u8 } else { 0 }).collect();
        if oplen > 0 {
            let cfb = (rng.below(4) as u8) << 6;
            let l = op.len() - 1;
            op[l] = (op[l] & 0x3f) | cfb;
        }
        // arguments
        let n = [0usize, 1, 1, 2, 2, 3, 5, 8, 20][rng.below(9) as usize];
        let mut lens: Vec<Option<usize>> = vec![];
        let mut nodes: Vec<NodePtr> = vec![];
        for _ in 0..n {
            if rng.below(25) == 0 {
                let x = a.nil();
                nodes.push(a.new_pair(x, x).unwrap());
                lens.push(None);
            } else {
                let l = match rng.below(6) {
                    0 => 0,
                    1 => rng.below(5) as usize,
                    2 => rng.below(40) as usize,
                    3 => 100 + rng.below(300) as usize,
                    4 => rng.below(3000) as usize,
                    _ => [12usize, 16, 32, 100, 336, 814, 82][rng.below(7) as usize],
                };
                nodes.push(a.new_atom(&vec![0x55u8; l]).unwrap());
                lens.push(Some(l));
            }
        }
        let mut args = a.nil();
        for nd in nodes.iter().rev() {
            args = a.new_pair(*nd, args).unwrap();
        }
        for new_model in [false, true] {
            // steer some cases onto the exact 2^32-1 boundary: pick the multiplier from the base
            let (_, _) = (0, 0);
            let mut op2 = op.clone();
            if round % 3 == 0 && op2.len() >= 1 && op2.len() <= 5 {
                let probe = [vec![op2[op2.len() - 1]]].concat();
                if let (Want::Ok(base), _) = spec(&probe, &lens, u64::MAX, new_model) {
                    for d in divisors {
                        let _ = d;
                    }
                    if base > 0 && 0xffff_ffffu64 % base == 0 {
                        let m = 0xffff_ffffu64 / base - 1 + [0u64, 0, 1][rng.below(3) as usize];
                        let mb = m.to_be_bytes();
                        let mut v: Vec<u8> = mb[4..].to_vec();
                        while v.len() > 1 && v[0] == 0 {
                            v.remove(0);
                        }
                        v.push(op2[op2.len() - 1]);
                        if !(v.len() >= 2 && v[0] == 0xff && v[1] == 0xff) {
                            op2 = v;
                        }
                    }
                }
            }
            let max_cost = match rng.below(5) {
                0 => u64::MAX,
                1 => 11_000_000_000,
                2 => rng.below(5000),
                _ => {
                    // around the base cost
                    match spec(&[op2.last().copied().unwrap_or(0) & 0xc0], &lens, u64::MAX, new_model).0 {
                        Want::Ok(b) => (b as i64 + rng.below(3) as i64 - 1).max(0) as u64,
                        _ => 1000,
                    }
                }
            };
            let (want, f2) = spec(&op2, &lens, max_cost, new_model);
            if f2 {
                skipped += 1;
                continue;
            }
            let o = a.new_atom(&op2).unwrap();
            let flags = if new_model { ClvmFlags::NEW_COST_MODEL } else { ClvmFlags::empty() };
            let got = op_unknown(&mut a, o, args, max_cost, flags);
            cases += 1;
            let ok = match (&got, &want) {
                (Ok(r), Want::Ok(c)) => r.0 == *c && a.atom_len(r.1) == 0,
                (Err(_), Want::Fail) => true,
                _ => false,
            };
            if !ok {
                let got_s = match &got { Ok(r) => format!("Ok(cost {})", r.0), Err(e) => format!("Err({e})") };
                let lens_s: Vec<String> = lens.iter().map(|l| l.map(|x| x.to_string()).unwrap_or("pair".to_string())).collect();
                return format!("{{\"found\":true,\"finder\":\"unknown-op\",\"opcode\":\"{}\",\"arg_sizes\":[{}],\"max_cost\":{max_cost},\"new_cost_model\":{new_model},\"observed\":\"{got_s}\",\"expected\":\"{want:?}\"}}",
                    hex(&op2), lens_s.iter().map(|s| format!("\"{s}\"")).collect::<Vec<_>>().join(","));
            }
        }
    }
    // ---- routing: the opcodes next to the two assigned 4-byte secp opcodes (same multiplier bytes, other cost-function
    // / low bits) and next to the flag-gated one-byte opcodes are UNASSIGNED: the dialect must treat them like op_unknown
    {
        use clvmr::chia_dialect::ChiaDialect;
        use clvmr::dialect::{Dialect, OperatorSet};
        let mut ops: Vec<Vec<u8>> = vec![];
        for low in 1u8..=0x3f {
            ops.push(vec![0x13, 0xd6, 0x1f, low]);
            ops.push(vec![0x1c, 0x3a, 0x8f, low]);
        }
        for hi in [0x40u8, 0x80, 0xc0] {
            ops.push(vec![0x13, 0xd6, 0x1f, hi]);
            ops.push(vec![0x1c, 0x3a, 0x8f, hi | 1]);
        }
        ops.push(vec![0x13, 0xd6, 0x1e, 0x00]);
        ops.push(vec![0x00, 0x13, 0xd6, 0x1f, 0x00]);
        for flags in [ClvmFlags::empty(), ClvmFlags::NEW_COST_MODEL] {
            for op in ops.iter() {
                for nargs in [0usize, 1, 3] {
                    let mut a = Allocator::new();
                    let o = a.new_atom(op).unwrap();
                    let mut args = a.nil();
                    for i in 0..nargs {
                        let x = a.new_atom(&vec![0x11u8; 3 + i]).unwrap();
                        args = a.new_pair(x, args).unwrap();
                    }
                    cases += 1;
                    let d = ChiaDialect::new(flags);
                    let got = d.op(&mut a, o, args, 11_000_000_000, OperatorSet::Default);
                    let want = op_unknown(&mut a, o, args, 11_000_000_000, flags);
                    let same = match (&got, &want) {
                        (Ok(x), Ok(y)) => x.0 == y.0 && a.atom_len(x.1) == 0,
                        (Err(_), Err(_)) => true,
                        _ => false,
                    };
                    if !same {
                        let f = |r: &clvmr::reduction::Response| match r { Ok(r) => format!("Ok(cost {})", r.0), Err(e) => format!("Err({e})") };
                        return format!("{{\"found\":true,\"finder\":\"unknown-op routing\",\"opcode\":\"{}\",\"args\":{nargs},\"new_cost_model\":{},\"observed\":\"ChiaDialect::op gives {}\",\"expected\":\"the unknown-operator rule: {}\"}}", hex(op), flags.contains(ClvmFlags::NEW_COST_MODEL), f(&got), f(&want));
                    }
                }
            }
        }
    }
    format!("{{\"found\":false,\"finder\":\"unknown-op\",\"cases\":{cases},\"skipped_f2\":{skipped}}}")
}
