//! Replay / failing-input search against the REAL compiled clvmr crate.
//! Not a deciding step: Verus decides; this binary turns a failed obligation into a concrete
//! input (or reproduces the listed input of a known finding).  Output: one JSON line.
use clvmr::allocator::Allocator;

mod alloc_model;
mod arith_find;
mod findings;
mod finding_f3;
mod search;
mod serde_find;
mod standin;
mod ser26_find;
mod decoder_find;
mod opcost_find;
mod prog_find;
mod treehash_find;
mod unknown_find;
mod varint_find;

fn main() {
    let args: Vec<String> = std::env::args().collect();
    let out = match args.get(1).map(|s| s.as_str()) {
        Some("finding") => findings::run(args.get(2).map(|s| s.as_str()).unwrap_or("")),
        Some("search") => search::run(&args[2..]),
        Some("standin") => match args.get(2).map(|s| s.as_str()) {
            Some("triples") => standin::triples(args.get(3).and_then(|s| s.parse().ok()).unwrap_or(0)),
            Some("objcache") => standin::objcache(args.get(3).and_then(|s| s.parse().ok()).unwrap_or(0)),
            // the two finders below are complete differential checks of functions that are not under contract; as
            // stand-ins their result is marked bounded
            Some("ser26") => standin::mark_bounded(ser26_find::search(args.get(3).and_then(|s| s.parse().ok()).unwrap_or(0)), "trees x levels (varint-width boundaries, shared sub-trees, spines, 300 random DAGs), all short instruction streams, 40 mutations of each small blob, 20000 random bodies"),
            Some("brlimit") => standin::mark_bounded(serde_find::limit_search(args.get(3).and_then(|s| s.parse().ok()).unwrap_or(0)), "60 random trees x every limit around every byte position (small outputs: all limits) plus five huge limits"),
            _ => "{\"error\":\"unknown stand-in\"}".to_string(),
        },
        Some("rerun") => search::rerun(args.get(2).map(|s| s.as_str()).unwrap_or("{}")),
        _ => "{\"error\":\"usage: vreplay finding <id> | search <pid> <label> <fn> <seed> | rerun <json>\"}".to_string(),
    };
    println!("{out}");
    let _ = Allocator::new();
}
