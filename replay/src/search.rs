//! Dispatch from a failed obligation (property id + label + function) to a failing-input finder.
use crate::alloc_model;
use crate::serde_find;

pub fn run(args: &[String]) -> String {
    let pid = args.first().map(|s| s.as_str()).unwrap_or("");
    let seed: u64 = args.get(3).and_then(|s| s.parse().ok()).unwrap_or(0);
    match pid {
        "C04" => {
            let r = crate::prog_find::search(pid);
            if r.contains("\"found\":true") { r } else { alloc_model::search(seed, 4000) }
        }
        "C02" | "C07" | "C31" | "C08" | "C25" => crate::prog_find::search(pid),
        "C13" => {
            let r = crate::prog_find::search(pid);
            if r.contains("\"found\":true") { r } else { alloc_model::search(seed, 4000) }
        }
        "C03" => {
            let r = crate::prog_find::search(pid);
            if r.contains("\"found\":true") { r } else { alloc_model::search(seed, 4000) }
        }
        "C12" | "C14" => alloc_model::search(seed, 4000),
        "C29" => serde_find::limit_search(seed),
        "C15" => serde_find::roundtrip_search(seed),
        "C16" | "C22" => {
            let r = crate::decoder_find::search(seed);
            if r.contains("\"found\":true") {
                r
            } else if pid == "C22" {
                crate::treehash_find::search(seed)
            } else {
                serde_find::roundtrip_search(seed)
            }
        }
        "C09" => crate::unknown_find::search(seed),
        "C06" => crate::arith_find::backend_search(seed),
        "C10" | "C11" | "C05" => {
            let r = crate::opcost_find::search(seed);
            let r = if r.contains("\"found\":true") { r } else { crate::arith_find::cost_search(seed) };
            if r.contains("\"found\":true") {
                r
            } else if pid == "C11" {
                crate::prog_find::search(pid)
            } else {
                crate::treehash_find::search(seed)
            }
        }
        "C23" => crate::treehash_find::search(seed),
        "C21" => crate::varint_find::search(seed),
        "C20" => {
            let r = crate::varint_find::search(seed);
            if r.contains("\"found\":true") { r } else { crate::ser26_find::search(seed) }
        }
        _ => "{\"found\":false,\"note\":\"no finder registered for this property\"}".to_string(),
    }
}

pub fn rerun(_doc: &str) -> String {
    "{\"rerun\":false}".to_string()
}
