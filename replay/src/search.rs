pub fn run(args: &[String]) -> String {
    let pid = args.first().map(|s| s.as_str()).unwrap_or("");
    let label = args.get(1).map(|s| s.as_str()).unwrap_or("");
    let _ = (pid, label);
    "{\"found\":false,\"note\":\"no finder registered for this obligation\"}".to_string()
}

pub fn rerun(_doc: &str) -> String {
    "{\"rerun\":false}".to_string()
}
