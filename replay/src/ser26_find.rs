//! C20 finder on the real compiled serde_2026 functions:
//!  (1) trees (shared sub-trees, repeated atoms, atom lengths at the varint width boundaries, long right
//!      and left spines) x levels: serialize_2026 -> deserialize_2026 strict and lenient give the same tree,
//!      the length probe returns the blob length (also with trailing bytes);
//!  (2) byte strings (mutated serializer output, short instruction streams, random bodies): decoders and
//!      probe return without panicking, probe == bytes consumed whenever decoding succeeds;
//!  (3) the classic and back-reference decoders reject blobs that start with the 2026 magic.
use crate::alloc_model::Rng;
use clvmr::allocator::{Allocator, NodePtr, SExp};
use clvmr::serde::{node_from_bytes, node_from_bytes_backrefs};
use clvmr::serde_2026::{deserialize_2026, deserialize_2026_body_from_stream, serialize_2026, serialized_length_serde_2026, SERDE_2026_MAGIC_PREFIX};
use std::io::Cursor;
use std::panic::{catch_unwind, AssertUnwindSafe};

/// largest max_atom_len used here: the body decoder pre-allocates the DECLARED atom length (documented: max_atom_len caps that
/// pre-allocation), so max_atom_len = usize::MAX lets a 9-byte blob request terabytes (observation O5 in DESIGN.md); the
/// search stays within 2 MiB so that it never exhausts the machine's memory
const BIG: usize = 1 << 21;

fn hex(b: &[u8]) -> String {
    b.iter().map(|x| format!("{x:02x}")).collect()
}

fn render(a: &Allocator, n: NodePtr, out: &mut Vec<u8>) {
    // iterative pre-order rendering (deep spines)
    let mut stack = vec![n];
    while let Some(n) = stack.pop() {
        match a.sexp(n) {
            SExp::Atom => {
                let b = a.atom(n);
                out.push(b'a');
                out.extend_from_slice(&(b.as_ref().len() as u32).to_be_bytes());
                out.extend_from_slice(b.as_ref());
            }
            SExp::Pair(l, r) => {
                out.push(b'p');
                stack.push(r);
                stack.push(l);
            }
        }
    }
}

fn found(what: &str, level: u32, blob: &[u8], detail: String) -> String {
    let h = if blob.len() > 200 { format!("{}... ({} bytes)", hex(&blob[..200]), blob.len()) } else { hex(blob) };
    format!("{{\"found\":true,\"finder\":\"serde-2026\",\"what\":\"{what}\",\"level\":{level},\"blob\":\"{h}\",\"detail\":\"{detail}\"}}")
}

fn build_trees(a: &mut Allocator, rng: &mut Rng) -> Vec<(String, NodePtr)> {
    let mut out: Vec<(String, NodePtr)> = vec![];
    let nil = a.nil();
    out.push(("nil".into(), nil));
    // atom lengths at the varint boundaries: the group length varint is -len (63, 64, 65, 8191, 8192, 8193, ...)
    for len in [1usize, 2, 62, 63, 64, 65, 127, 128, 129, 8191, 8192, 8193, 1048575, 1048576, 1048577] {
        let x = a.new_atom(&vec![0x41u8; len]).unwrap();
        let mut yb = vec![0x42u8; len];
        yb[0] = 0x43;
        let y = a.new_atom(&yb).unwrap();
        let p = a.new_pair(x, y).unwrap();
        out.push((format!("pair of two distinct {len}-byte atoms"), p));
        out.push((format!("single {len}-byte atom"), x));
        let q = a.new_pair(p, p).unwrap();
        out.push((format!("shared pair of {len}-byte atoms"), q));
    }
    // many distinct pairs, then re-reference the k-th constructed pair (instruction values around -64, -8192)
    for total in [70usize, 140, 8300] {
        let mut pairs = vec![];
        let mut l = nil;
        for i in 0..total {
            let v = a.new_number((i as u64 + 300).into()).unwrap();
            let p = a.new_pair(v, nil).unwrap();
            pairs.push(p);
            l = a.new_pair(p, l).unwrap();
        }
        for k in [0usize, 1, 61, 62, 63, 64, 65, total - 1] {
            if k < total {
                let t = a.new_pair(pairs[k], l).unwrap();
                out.push((format!("list of {total} distinct pairs re-referencing pair #{k}"), t));
                let t2 = a.new_pair(l, pairs[k]).unwrap();
                out.push((format!("list of {total} distinct pairs, pair #{k} referenced after"), t2));
            }
        }
    }
    // spines
    for depth in [1usize, 2, 63, 64, 65, 1000, 20000] {
        let leaf = a.new_atom(&[7]).unwrap();
        let mut r = leaf;
        let mut l = leaf;
        for _ in 0..depth {
            r = a.new_pair(leaf, r).unwrap();
            l = a.new_pair(l, leaf).unwrap();
        }
        out.push((format!("right spine depth {depth}"), r));
        out.push((format!("left spine depth {depth}"), l));
        let both = a.new_pair(l, r).unwrap();
        out.push((format!("left and right spines depth {depth}"), both));
    }
    // random DAGs
    for t in 0..300 {
        let mut nodes: Vec<NodePtr> = vec![nil];
        // expanded (unshared) size of every node: the comparison renders the tree without sharing
        let mut sizes: Vec<u64> = vec![1];
        let n_atoms = 1 + rng.below(6) as usize;
        for _ in 0..n_atoms {
            let len = match rng.below(6) {
                0 => 0,
                1 => 1,
                2 => rng.below(5) as usize,
                3 => 60 + rng.below(10) as usize,
                4 => 120 + rng.below(20) as usize,
                _ => rng.below(40) as usize,
            };
            let b: Vec<u8> = (0..len).map(|_| rng.below(256) as u8).collect();
            nodes.push(a.new_atom(&b).unwrap());
            sizes.push(1);
        }
        let steps = 1 + rng.below(if t % 10 == 0 { 400 } else { 40 }) as usize;
        for _ in 0..steps {
            let li = rng.below(nodes.len() as u64) as usize;
            let ri = (nodes.len() - 1).saturating_sub(rng.below(4) as usize);
            if sizes[li] + sizes[ri] > 200_000 {
                continue;
            }
            let (li, ri) = if rng.below(2) == 0 { (li, ri) } else { (ri, li) };
            nodes.push(a.new_pair(nodes[li], nodes[ri]).unwrap());
            sizes.push(sizes[li] + sizes[ri] + 1);
        }
        out.push((format!("random dag #{t}"), *nodes.last().unwrap()));
    }
    out
}

fn decode_both(blob: &[u8], max_atom_len: usize) -> Result<[Option<Vec<u8>>; 2], String> {
    let mut res: [Option<Vec<u8>>; 2] = [None, None];
    for (i, strict) in [true, false].into_iter().enumerate() {
        let b = blob.to_vec();
        let r = catch_unwind(AssertUnwindSafe(move || {
            let mut a = Allocator::new();
            match deserialize_2026(&mut a, &b, max_atom_len, strict) {
                Ok(n) => {
                    let mut v = vec![];
                    render(&a, n, &mut v);
                    Some(v)
                }
                Err(_) => None,
            }
        }));
        match r {
            Ok(v) => res[i] = v,
            Err(_) => return Err(format!("deserialize_2026 (strict={strict}) panicked")),
        }
    }
    Ok(res)
}

fn probe(blob: &[u8], max_atom_len: usize, strict: bool) -> Result<Option<u64>, String> {
    let b = blob.to_vec();
    catch_unwind(AssertUnwindSafe(move || serialized_length_serde_2026(&b, max_atom_len, strict).ok())).map_err(|_| format!("serialized_length_serde_2026 (strict={strict}) panicked"))
}

/// bytes consumed by the body decoder, if it succeeds
fn consumed(blob: &[u8], max_atom_len: usize, strict: bool) -> Result<Option<u64>, String> {
    if blob.len() < 6 || blob[..6] != SERDE_2026_MAGIC_PREFIX {
        return Ok(None);
    }
    let b = blob[6..].to_vec();
    catch_unwind(AssertUnwindSafe(move || {
        let mut a = Allocator::new();
        let mut c = Cursor::new(&b[..]);
        match deserialize_2026_body_from_stream(&mut a, &mut c, max_atom_len, strict) {
            Ok(_) => Some(6 + c.position()),
            Err(_) => None,
        }
    }))
    .map_err(|_| format!("deserialize_2026_body_from_stream (strict={strict}) panicked"))
}

fn check_bytes(blob: &[u8], max_atom_len: usize, what: &str) -> Option<String> {
    for strict in [true, false] {
        let p = match probe(blob, max_atom_len, strict) {
            Ok(p) => p,
            Err(e) => return Some(found(what, 0, blob, e)),
        };
        let c = match consumed(blob, max_atom_len, strict) {
            Ok(c) => c,
            Err(e) => return Some(found(what, 0, blob, e)),
        };
        if let Some(c) = c {
            if p != Some(c) {
                return Some(found(what, 0, blob, format!("strict={strict} max_atom_len={max_atom_len}: decoder consumed {c} bytes, length probe says {p:?}")));
            }
        }
    }
    if let Err(e) = decode_both(blob, max_atom_len) {
        return Some(found(what, 0, blob, e));
    }
    None
}

pub fn search(seed: u64) -> String {
    let mut rng = Rng(seed ^ 0x2026);
    let mut cases = 0u64;
    let mut a = Allocator::new();
    let trees = build_trees(&mut a, &mut rng);
    let mut corpus: Vec<Vec<u8>> = vec![];
    for (name, t) in trees.iter() {
        if std::env::var("VREPLAY_TRACE").is_ok() {
            eprintln!("tree: {name}");
        }
        let mut want = vec![];
        render(&a, *t, &mut want);
        for level in [0u32, 1, 2, 3, 9, u32::MAX] {
            cases += 1;
            let blob = match catch_unwind(AssertUnwindSafe(|| serialize_2026(&a, *t, level))) {
                Ok(Ok(b)) => b,
                Ok(Err(e)) => return found("serialize_2026 failed", level, &[], format!("{name}: {e:?}")),
                Err(_) => return found("serialize_2026 panicked", level, &[], name.clone()),
            };
            match decode_both(&blob, BIG) {
                Err(e) => return found("round trip", level, &blob, format!("{name}: {e}")),
                Ok([s, l]) => {
                    if s.as_ref() != Some(&want) || l.as_ref() != Some(&want) {
                        let d = |x: &Option<Vec<u8>>| match x {
                            None => "Err",
                            Some(v) if *v == want => "the tree",
                            Some(_) => "a DIFFERENT tree",
                        };
                        return found("round trip", level, &blob, format!("{name}: strict decode gives {}, lenient decode gives {}", d(&s), d(&l)));
                    }
                }
            }
            for strict in [true, false] {
                let mut padded = blob.clone();
                padded.extend_from_slice(&[0xaa, 0x00, 0xff]);
                for (b, tag) in [(&blob, "exact"), (&padded, "with trailing bytes")] {
                    match probe(b, BIG, strict) {
                        Ok(Some(n)) if n == blob.len() as u64 => {}
                        Ok(other) => return found("length probe", level, &blob, format!("{name} ({tag}, strict={strict}): probe returns {other:?}, blob has {} bytes", blob.len())),
                        Err(e) => return found("length probe", level, &blob, format!("{name}: {e}")),
                    }
                }
            }
            if blob.len() < 400 && corpus.len() < 600 {
                corpus.push(blob);
            }
        }
    }
    // (2) totality and probe == consumed on byte strings
    let magic = SERDE_2026_MAGIC_PREFIX.to_vec();
    let mut small: Vec<Vec<u8>> = vec![vec![], magic.clone(), magic[..3].to_vec()];
    // all short instruction streams over a tiny alphabet: 0 or 1 atom group, up to 4 instructions
    let alphabet: [u8; 7] = [0x00, 0x01, 0x02, 0x03, 0x7f, 0x40, 0x7e];
    for with_atom in [false, true] {
        for n in 0..=4usize {
            let mut idx = vec![0usize; n];
            loop {
                let mut b = magic.clone();
                if with_atom {
                    b.extend_from_slice(&[0x01, 0x01, b'A']);
                } else {
                    b.push(0x00);
                }
                b.push(n as u8);
                for &i in idx.iter() {
                    b.push(alphabet[i]);
                }
                small.push(b);
                let mut k = 0;
                while k < n {
                    idx[k] += 1;
                    if idx[k] < alphabet.len() {
                        break;
                    }
                    idx[k] = 0;
                    k += 1;
                }
                if k == n {
                    break;
                }
            }
        }
    }
    for b in small.iter() {
        cases += 1;
        for mal in [BIG, 0, 1] {
            if let Some(f) = check_bytes(b, mal, "byte string") {
                return f;
            }
        }
    }
    for blob in corpus.iter() {
        for _ in 0..40 {
            cases += 1;
            let mut b = blob.clone();
            match rng.below(5) {
                0 => {
                    let i = rng.below(b.len() as u64) as usize;
                    b[i] = rng.below(256) as u8;
                }
                1 => {
                    let i = 6 + rng.below((b.len() - 6).max(1) as u64) as usize;
                    b.truncate(i);
                }
                2 => {
                    let i = (6 + rng.below((b.len() - 6).max(1) as u64) as usize).min(b.len());
                    b.insert(i, [0x00, 0x01, 0x02, 0x7f, 0x80, 0xff, 0x40][rng.below(7) as usize]);
                }
                3 => {
                    let i = (6 + rng.below((b.len() - 6).max(1) as u64) as usize).min(b.len() - 1);
                    b[i] ^= 1 << rng.below(8);
                }
                _ => {
                    let i = (6 + rng.below((b.len() - 6).max(1) as u64) as usize).min(b.len() - 1);
                    if b.len() > 7 {
                        b.remove(i);
                    }
                }
            }
            let mal = [BIG, 64, 3][rng.below(3) as usize];
            if let Some(f) = check_bytes(&b, mal, "mutated serializer output") {
                return f;
            }
        }
    }
    for _ in 0..20000 {
        cases += 1;
        let mut b = magic.clone();
        let n = rng.below(14) as usize;
        for _ in 0..n {
            b.push(match rng.below(4) {
                0 => rng.below(4) as u8,
                1 => 0x7f - rng.below(4) as u8,
                2 => 0x40 + rng.below(3) as u8,
                _ => rng.below(256) as u8,
            });
        }
        if let Some(f) = check_bytes(&b, BIG, "random body") {
            return f;
        }
    }
    // (3) the classic decoders reject the magic prefix
    for blob in corpus.iter().take(200).chain([magic.clone()].iter()) {
        cases += 1;
        let mut a2 = Allocator::new();
        if node_from_bytes(&mut a2, blob).is_ok() {
            return found("classic decoder accepts a 2026 blob", 0, blob, "node_from_bytes returned Ok".into());
        }
        if node_from_bytes_backrefs(&mut a2, blob).is_ok() {
            return found("back-reference decoder accepts a 2026 blob", 0, blob, "node_from_bytes_backrefs returned Ok".into());
        }
    }
    format!("{{\"found\":false,\"finder\":\"serde-2026\",\"cases\":{cases}}}")
}
