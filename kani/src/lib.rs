//! Kani harnesses against the compiled REAL crate (C21: serde_2026 varints).
//! Every loop in write_varint / read_varint is bounded by the constant 8, inputs are fully
//! symbolic, unwinding assertions are on: a passing harness is a complete proof for its statement.
#![allow(dead_code)]

#[cfg(kani)]
mod varint {
    use clvmr::serde_2026::{read_varint, write_varint};
    use std::io::{Read, Write};

    /// fixed-capacity sink (no allocation, so CBMC stays small)
    struct Sink {
        buf: [u8; 9],
        len: usize,
    }
    impl Write for Sink {
        fn write(&mut self, b: &[u8]) -> std::io::Result<usize> {
            let mut i = 0;
            while i < b.len() && self.len < 9 {
                self.buf[self.len] = b[i];
                self.len += 1;
                i += 1;
            }
            Ok(i)
        }
        fn flush(&mut self) -> std::io::Result<()> {
            Ok(())
        }
    }

    /// reader over the first `avail` bytes of a fixed array that counts what it hands out
    struct Src {
        buf: [u8; 9],
        avail: usize,
        pos: usize,
    }
    impl Read for Src {
        fn read(&mut self, out: &mut [u8]) -> std::io::Result<usize> {
            let mut i = 0;
            while i < out.len() && self.pos < self.avail {
                out[i] = self.buf[self.pos];
                self.pos += 1;
                i += 1;
            }
            Ok(i)
        }
    }

    /// shortest size according to the STATEMENT: k bytes carry a 7k-bit two's complement value
    fn spec_size(v: i64) -> usize {
        let mut k = 1;
        while k <= 8 {
            let bits = 7 * k as u32;
            let lo = -(1i64 << (bits - 1));
            let hi = (1i64 << (bits - 1)) - 1;
            if v >= lo && v <= hi {
                return k;
            }
            k += 1;
        }
        9
    }

    /// C21 sentence 1: every 56-bit value encodes to its shortest varint and decodes back
    #[kani::proof]
    #[kani::unwind(10)]
    fn varint_roundtrip() {
        let v: i64 = kani::any();
        kani::assume(v >= -(1i64 << 55) && v < (1i64 << 55));
        let mut s = Sink { buf: [0; 9], len: 0 };
        write_varint(&mut s, v).unwrap();
        assert!(s.len == spec_size(v)); // shortest encoding
        let strict: bool = kani::any();
        let mut r = Src { buf: s.buf, avail: s.len, pos: 0 };
        let back = read_varint(&mut r, strict);
        assert!(back.is_ok());
        assert!(back.unwrap() == v);
        assert!(r.pos == s.len); // consumes exactly what was written
    }

    /// C21 sentences 2-4: every byte string decodes to at most one value, consuming the length its
    /// prefix declares; strict accepts exactly the shortest encodings; lenient returns the value denoted
    #[kani::proof]
    #[kani::unwind(10)]
    fn varint_decode_total() {
        let buf: [u8; 9] = kani::any();
        let avail: usize = kani::any();
        kani::assume(avail <= 9);
        let strict: bool = kani::any();
        let mut r = Src { buf, avail, pos: 0 };
        let res = read_varint(&mut r, strict); // must not panic for any input
        let ones = buf[0].leading_ones() as usize;
        match res {
            Ok(v) => {
                assert!(avail >= 1 && ones < 8);
                assert!(r.pos == ones + 1); // consumes exactly the declared length
                assert!(avail >= ones + 1);
                // the value denoted: 7*(ones+1)-bit two's complement, big endian, after the prefix bits
                let bits = 7 * (ones as u32 + 1);
                let mut u: u64 = (buf[0] & (0xffu16 >> (ones + 1)) as u8) as u64;
                let mut i = 1;
                while i <= ones {
                    u = (u << 8) | buf[i] as u64;
                    i += 1;
                }
                let denoted = if u >= (1u64 << (bits - 1)) { u as i64 - (1i64 << bits) } else { u as i64 };
                assert!(v == denoted);
                if strict {
                    assert!(spec_size(v) == ones + 1); // strict accepts only the shortest
                }
            }
            Err(_) => {
                // failure only for: no input, 0xff prefix, truncated input, or (strict) a non-minimal encoding
                let truncated = avail == 0 || ones >= 8 || avail < ones + 1;
                if !truncated {
                    assert!(strict);
                    let bits = 7 * (ones as u32 + 1);
                    let mut u: u64 = (buf[0] & (0xffu16 >> (ones + 1)) as u8) as u64;
                    let mut i = 1;
                    while i <= ones {
                        u = (u << 8) | buf[i] as u64;
                        i += 1;
                    }
                    let denoted = if u >= (1u64 << (bits - 1)) { u as i64 - (1i64 << bits) } else { u as i64 };
                    assert!(spec_size(denoted) != ones + 1); // strict rejects only non-minimal ones
                }
            }
        }
    }
}
