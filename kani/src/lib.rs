//! Kani harnesses against the compiled REAL crate (C21: serde_2026 varints).
//! Every loop in write_varint / read_varint is bounded by the constant 8, inputs are fully
//! symbolic, unwinding assertions are on: a passing harness is a complete proof for its statement.
#![allow(dead_code)]

#[cfg(kani)]
mod varint {
    use clvmr::serde_2026::{read_varint, write_varint};
    use std::io::{Read, Write};

    /// fixed-capacity sink (no allocation, so CBMC stays small)
    struct Sink {
        buf: [u8; 9],
        len: usize,
    }
    impl Write for Sink {
        fn write(&mut self, b: &[u8]) -> std::io::Result<usize> {
            let mut i = 0;
            while i < b.len() && self.len < 9 {
                self.buf[self.len] = b[i];
                self.len += 1;
                i += 1;
            }
            Ok(i)
        }
        fn flush(&mut self) -> std::io::Result<()> {
            Ok(())
        }
    }

    /// reader over the first `avail` bytes of a fixed array that counts what it hands out
    struct Src {
        buf: [u8; 9],
        avail: usize,
        pos: usize,
    }
    impl Read for Src {
        fn read(&mut self, out: &mut [u8]) -> std::io::Result<usize> {
            let mut i = 0;
            while i < out.len() && self.pos < self.avail {
                out[i] = self.buf[self.pos];
                self.pos += 1;
                i += 1;
            }
            Ok(i)
        }
    }

    /// shortest size according to the STATEMENT: k bytes carry a 7k-bit two's complement value
    fn spec_size(v: i64) -> usize {
        let mut k = 1;
        while k <= 8 {
            let bits = 7 * k as u32;
            let lo = -(1i64 << (bits - 1));
            let hi = (1i64 << (bits - 1)) - 1;
            if v >= lo && v <= hi {
                return k;
            }
            k += 1;
        }
        9
    }

    /// C21 sentence 1: every 56-bit value encodes to its shortest varint and decodes back
    #[kani::proof]
    #[kani::unwind(10)]
    fn varint_roundtrip() {
        let v: i64 = kani::any();
        kani::assume(v >= -(1i64 << 55) && v < (1i64 << 55));
        let mut s = Sink { buf: [0; 9], len: 0 };
        write_varint(&mut s, v).unwrap();
        assert!(s.len == spec_size(v)); // shortest encoding
        let strict: bool = kani::any();
        let mut r = Src { buf: s.buf, avail: s.len, pos: 0 };
        let back = read_varint(&mut r, strict);
        assert!(back.is_ok());
        assert!(back.unwrap() == v);
        assert!(r.pos == s.len); // consumes exactly what was written
    }

    /// C21 sentences 2-4: every byte string decodes to at most one value, consuming the length its
    /// prefix declares; strict accepts exactly the shortest encodings; lenient returns the value denoted
    #[kani::proof]
    #[kani::unwind(10)]
    fn varint_decode_total() {
        let buf: [u8; 9] = kani::any();
        let avail: usize = kani::any();
        kani::assume(avail <= 9);
        let strict: bool = kani::any();
        let mut r = Src { buf, avail, pos: 0 };
        let res = read_varint(&mut r, strict); // must not panic for any input
        let ones = buf[0].leading_ones() as usize;
        match res {
            Ok(v) => {
                assert!(avail >= 1 && ones < 8);
                assert!(r.pos == ones + 1); // consumes exactly the declared length
                assert!(avail >= ones + 1);
                // the value denoted: 7*(ones+1)-bit two's complement, big endian, after the prefix bits
                let bits = 7 * (ones as u32 + 1);
                let mut u: u64 = (buf[0] & (0xffu16 >> (ones + 1)) as u8) as u64;
                let mut i = 1;
                while i <= ones {
                    u = (u << 8) | buf[i] as u64;
                    i += 1;
                }
                let denoted = if u >= (1u64 << (bits - 1)) { u as i64 - (1i64 << bits) } else { u as i64 };
                assert!(v == denoted);
                if strict {
                    assert!(spec_size(v) == ones + 1); // strict accepts only the shortest
                }
            }
            Err(_) => {
                // failure only for: no input, 0xff prefix, truncated input, or (strict) a non-minimal encoding
                let truncated = avail == 0 || ones >= 8 || avail < ones + 1;
                if !truncated {
                    assert!(strict);
                    let bits = 7 * (ones as u32 + 1);
                    let mut u: u64 = (buf[0] & (0xffu16 >> (ones + 1)) as u8) as u64;
                    let mut i = 1;
                    while i <= ones {
                        u = (u << 8) | buf[i] as u64;
                        i += 1;
                    }
                    let denoted = if u >= (1u64 << (bits - 1)) { u as i64 - (1i64 << bits) } else { u as i64 };
                    assert!(spec_size(denoted) != ones + 1); // strict rejects only non-minimal ones
                }
            }
        }
    }
}

/// C15 / C16 byte-level codec: the length-prefix writer, the prefix reader and the canonical-atom
/// check, called directly through the cfg-guarded hooks.  Inputs are fully symbolic; every loop is
/// bounded by the prefix length (<= 8); these are complete proofs, not bounded stand-ins.
#[cfg(kani)]
#[cfg(chia_network_clvm_rs_verif)]
mod prefix {
    use clvmr::serde::verif_hooks::{decode_size_with_offset, is_canonical_atom, write_atom_encoding_prefix_with_size};
    use std::io::{Cursor, Write};

    struct Sink {
        buf: [u8; 8],
        len: usize,
    }
    impl Write for Sink {
        fn write(&mut self, b: &[u8]) -> std::io::Result<usize> {
            let mut i = 0;
            while i < b.len() && self.len < 8 {
                self.buf[self.len] = b[i];
                self.len += 1;
                i += 1;
            }
            Ok(i)
        }
        fn flush(&mut self) -> std::io::Result<()> {
            Ok(())
        }
    }

    /// the classic length prefix as the format defines it (docs; statement of C15):
    /// size 0 -> 80; one byte < 0x80 -> no prefix; then 6, 13, 20, 27, 34 bit sizes with 1..5 byte prefixes
    fn spec_prefix(size: u64, first: u8) -> ([u8; 5], usize) {
        if size == 0 {
            ([0x80, 0, 0, 0, 0], 1)
        } else if size == 1 && first < 0x80 {
            ([0; 5], 0)
        } else if size < (1 << 6) {
            ([0x80 | size as u8, 0, 0, 0, 0], 1)
        } else if size < (1 << 13) {
            ([0xc0 | (size >> 8) as u8, size as u8, 0, 0, 0], 2)
        } else if size < (1 << 20) {
            ([0xe0 | (size >> 16) as u8, (size >> 8) as u8, size as u8, 0, 0], 3)
        } else if size < (1 << 27) {
            ([0xf0 | (size >> 24) as u8, (size >> 16) as u8, (size >> 8) as u8, size as u8, 0], 4)
        } else {
            ([0xf8 | (size >> 32) as u8, (size >> 24) as u8, (size >> 16) as u8, (size >> 8) as u8, size as u8], 5)
        }
    }

    /// encoder == specification for every size and first byte; sizes >= 2^34 are refused
    #[kani::proof]
    #[kani::unwind(9)]
    fn prefix_encoder_matches_spec() {
        let size: u64 = kani::any();
        let first: u8 = kani::any();
        let mut s = Sink { buf: [0; 8], len: 0 };
        let r = write_atom_encoding_prefix_with_size(&mut s, first, size);
        if size >= (1u64 << 34) {
            assert!(r.is_err());
        } else {
            assert!(r.is_ok());
            let (want, n) = spec_prefix(size, first);
            assert!(s.len == n);
            let mut i = 0;
            while i < 5 {
                if i < n {
                    assert!(s.buf[i] == want[i]);
                }
                i += 1;
            }
        }
    }

    /// decoder is the inverse of the specification on every size (round trip of the prefix)
    #[kani::proof]
    #[kani::unwind(9)]
    fn prefix_decoder_inverts_spec() {
        let size: u64 = kani::any();
        let first: u8 = kani::any();
        kani::assume(size < (1u64 << 34));
        kani::assume(!(size == 1 && first < 0x80));
        let (p, n) = spec_prefix(size, first);
        let rest: [u8; 4] = [p[1], p[2], p[3], p[4]];
        let mut cur = Cursor::new(&rest[..n - 1]);
        let r = decode_size_with_offset(&mut cur, p[0]);
        assert!(r.is_ok());
        let (off, sz) = r.unwrap();
        assert!(off as usize == n);
        assert!(sz == size);
        assert!(cur.position() as usize == n - 1);
    }

    /// decoder totality on every prefix: never panics; Ok => consumed leading_ones-1 bytes, size < 2^34
    #[kani::proof]
    #[kani::unwind(9)]
    fn prefix_decoder_total() {
        let first: u8 = kani::any();
        kani::assume(first & 0x80 != 0);
        let rest: [u8; 7] = kani::any();
        let avail: usize = kani::any();
        kani::assume(avail <= 7);
        let mut cur = Cursor::new(&rest[..avail]);
        let r = decode_size_with_offset(&mut cur, first);
        let k = first.leading_ones() as usize;
        match r {
            Ok((off, sz)) => {
                assert!(off as usize == k && k <= 6);
                assert!(sz < (1u64 << 34));
                assert!(cur.position() as usize == k - 1);
                // the value is the big-endian number after the leading ones
                let mut v: u64 = (first & (0xffu16 >> k) as u8) as u64;
                let mut i = 0;
                while i + 1 < k {
                    v = (v << 8) | rest[i] as u64;
                    i += 1;
                }
                assert!(v == sz);
            }
            Err(_) => {
                let mut v: u64 = (first & (0xffu16 >> k.min(8)) as u8) as u64;
                let mut i = 0;
                while i + 1 < k && i < 7 {
                    v = (v << 8) | rest[i] as u64;
                    i += 1;
                }
                assert!(k > 6 || avail + 1 < k || v >= (1u64 << 34));
            }
        }
    }

    /// C15/C16: the canonical-atom check accepts a prefix exactly when it is the prefix the format
    /// defines for the size it denotes (i.e. what the encoder emits), for every prefix
    #[kani::proof]
    #[kani::unwind(9)]
    fn canonical_atom_iff_minimal_prefix() {
        let buf: [u8; 8] = kani::any();
        let first = buf[0];
        kani::assume(first > 0x7f && first != 0x80);
        let avail: usize = kani::any();
        kani::assume(avail >= 1 && avail <= 8);
        let mut cur = Cursor::new(&buf[..avail]);
        cur.set_position(1);
        let r = is_canonical_atom(&mut cur, first);
        let k = first.leading_ones() as usize;
        // what the prefix denotes
        let complete = k <= 6 && avail >= k;
        let mut v: u64 = (first & (0xffu16 >> k.min(8)) as u8) as u64;
        let mut i = 1;
        while i < k && i < 7 {
            v = (v << 8) | buf[i] as u64;
            i += 1;
        }
        if !complete || v >= (1u64 << 34) {
            assert!(!r);
        } else {
            // first byte of the atom (only matters for size 1)
            let data0_present = avail > k;
            let data0 = if data0_present { buf[k] } else { 0 };
            if v == 1 && !data0_present {
                assert!(!r);
            } else {
                let (want, n) = spec_prefix(v, data0);
                let mut same = n == k;
                let mut j = 0;
                while j < 5 {
                    if j < n && j < k && buf[j] != want[j] {
                        same = false;
                    }
                    j += 1;
                }
                assert!(r == same);
            }
        }
    }
}
