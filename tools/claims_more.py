"""Claims added after the first nine (kept in a separate table; merged by gen_manifest.py)."""

TB = ("Trusted: Verus 0.2026.09.13 + Z3; the extractor (token scanner, rewrite rules R1-R16, per-run fidelity check); assumed contracts "
      "listed in contracts/ASSUMPTIONS.tsv; usize = 64 bit; no model of memory exhaustion; termination of the interpreter loop not proved. ")

MORE = {
    "C02": dict(
        text="Partial proof (Verus) of the soundness clause on the real run_program loop: a successful run's cost is <= the budget "
             "(<= u64::MAX for budget 0), because the loop invariant keeps every pending softfork guard's expected cost <= the budget, "
             "apply_op only pushes a guard whose expected cost is <= the effective budget, check_cost fails exactly when cost > max_cost "
             "and only with CostExceeded, and the path-lookup costs equal the documented formula. Monotonicity, upward closure and "
             "tightness compare two runs (relational) and are NOT decided; they are covered only through the per-function clauses that "
             "make each step's value and cost independent of max_cost when it succeeds.",
        note=TB + "Operators are reached through the Dialect trait contract (ChiaDialect::op dispatches through function pointers, outside "
             "Verus's fragment). That every operator returns a valid node, a cost <= 2^62+2^40 and no InternalError is PROVED per operator in its "
             "home unit (clause *.generic; DESIGN 11.17) and tied to the dispatch unit by a consistency check. "
             "Unlimited budget: the counter is assumed to stay below 2^62.",
        tech="contract-based deductive verification (Verus): loop invariant on the real interpreter loop over an abstract stack-discipline predicate",
        ref="4/C02"),
    "C31": dict(
        text="Proof (Verus) on the real exit_guard / apply_op / parse_softfork_arguments: a guard that completes pushes exactly nil in place of "
             "its program's value, restores the allocator counts to the checkpoint taken at entry, charges exactly the declared cost unless "
             "the guard is the grandfathered PreHardFork set, and with LIMIT_SOFTFORK no guard is entered at nesting depth >= 20; "
             "uint_atom (declared cost / extension decoding) is proved against its specification.",
        note=TB + "That stack entries below a guard's result and all pending checkpoints predate the guard's checkpoint is PROVED from the "
             "checkpoint invariant cpinv carried by every interpreter step (formerly assumption H). Dialect::softfork_extension / op are trait contracts.",
        tech="contract-based deductive verification (Verus): postconditions over the interpreter state (stacks, guard stack, allocator counts)",
        ref="4/C31"),
    "C04": dict(
        text="Partial proof (Verus) of the mechanism: maybe_restore_with_node never errs on a consistent checkpoint (heap_limit >= 1), leaves "
             "counts() exactly unchanged, keeps every node older than the checkpoint (tree and validity), and the node it returns denotes "
             "the same tree as the one passed in; checkpoint_node_status classifies exactly; the RestoreAllocator arm of run_program keeps the "
             "interpreter invariant, whose heap-cap part (needed because the restore re-allocates the returned atom with a checked allocation) "
             "is now derived from proved operator contracts. That a whole run with and without ENABLE_GC gives the same outcome is the "
             "composition of these per-step facts (relational, not mechanised). Finding F4 (fixed): through new_substr's unchecked heap "
             "append a guarded program could exceed the heap limit by one byte and then fail with OutOfMemory only under ENABLE_GC; found "
             "while discharging the generic operator contract, repaired by a fix: commit, and searched for concretely by the finder "
             "(guarded programs under a window of heap limits).",
        note=TB + "The RestoreAllocator arm's history facts come from the proved checkpoint invariant cpinv (no assumption); gc_candidate is a trait contract.",
        tech="contract-based deductive verification (Verus): value-preserving-restore contract (counts, frame, tree equality)",
        ref="4/C04"),
    "C05": dict(
        text="Proof (Verus) for the fast paths, partial for the diagnostic builds: all five `no-fastpath` gates and the path-lookup fast path are verified in BOTH builds "
             "against one contract each (every unit that contains a gate is assembled twice from the cfg-evaluated source): inline "
             "small-integer path lookup (traverse_path_fast == traverse_path on the canonical bytes, eval_pair), the precomputed-digest path of "
             "op_sha256 (table checked completely against hashlib on every run), the small-integer comparison of op_gr, the inline-operand arm of "
             "op_multiply, and the u64 / i64 accumulation of op_add / op_subtract (each fast path is an immediately-invoked closure, lifted "
             "mechanically to a function of its own on every run (R20); it is proved to return exactly the documented cost and the exact sum, "
             "or to hand over to the bignum path, which satisfies the same contract; the repo's `impl Limbs for u64 / i64` is proved to count "
             "magnitude bytes). The `counters` diagnostic build of the allocator and of the interpreter (units ALLOC and RUN, variant "
             "`counters`) is verified against the same contracts as the default build (the observable state does not mention the diagnostic "
             "fields; update_max_counts / account_* change nothing else). The `pre-eval` instrumentation build (boxed callbacks) is not under "
             "contract.",
        note=TB + "Atom::as_ref assumed to return the atom's bytes (no-fastpath variant); bignum products / sums / magnitudes are library "
             "assumptions; that the bignum's magnitude size equals the machine integer's magnitude bytes for values below 2^64 is the assumed "
             "library link axiom_limbs_small (the repo's test_limbs_agreement samples it).",
        tech="contract-based deductive verification (Verus): two implementations against one spec function; unit assembled under two feature sets",
        ref="4/C05, 11.1, 11.7, 11.11, 11.16, 11.19"),
    "C10": dict(
        text="Partial proof (Verus) for the operators under contract: if, cons, first, rest, listp, raise, eq, not, any, all, strlen, concat, "
             "sha256, sha256tree (per pair and per byte over the fully expanded tree, whether or not sub-trees are shared), div, divmod, mod, "
             "modpow, add, subtract, gr (>), gr_bytes (>s), multiply, logand/logior/logxor (new model: per byte of max(argument, accumulator magnitude)), lognot, "
             "ash, lsh, substr, coinid, secp256k1/r1 verify charge exactly their documented constants / formulas over argument sizes, accumulator "
             "magnitudes and result size, in both cost models; unknown operators charge the opcode rule (C09); uint_atom / i32_atom decode exactly "
             "the documented operand domains; the path lookup charges 44 + 4 per leading zero byte + 4 per bit; add and subtract (both builds; new "
             "model: per byte of max(operand length, magnitude of the running total)). NOT under contract: point_add, pubkey_for_exp, the BLS and "
             "keccak operators.",
        note=TB,
        tech="contract-based deductive verification (Verus): exact-cost and success-condition postconditions per operator",
        ref="4/C10, 11.1, 11.7, 11.9, 11.11, 11.13-11.15"),
    "C11": dict(
        text="Partial proof (Verus): (1) for the operators under contract (see C10) the value clause of each contract does not mention the "
             "cost-model flag, so a call that succeeds under both models returns the same tree; (2) ChiaDialect::op equals the operator table, "
             "and a lemma on the table shows NEW_COST_MODEL never changes which operator an opcode selects (it can only lift the DISABLE_OP "
             "ban on modpow); (3) binop_reduction, the mechanism the property names (single accumulator under the new model, positive / negative "
             "split accumulators before), is verified in three specialised copies (logand, logior, logxor): in both models the result is the "
             "left fold of the operator over the operands, proved from associativity, commutativity and the identity of the bit operation (assumed "
             "library facts), whichever accumulator an operand goes to; (4) op_add / op_subtract, the other named mechanism (one accumulator "
             "under the new model, two randomly chosen accumulators plus a small-integer accumulator before): in both models and both builds "
             "the result is the exact sum / difference, for EVERY choice of the random accumulator index. Operators not under contract (BLS, "
             "keccak, point_add, pubkey_for_exp) are outside the proof.",
        note=TB,
        tech="contract-based deductive verification (Verus): value postconditions independent of the flags argument; routing lemma over the dispatch table",
        ref="4/C11, 11.1"),
    "C07": dict(
        text="Partial proof (Verus): (1) ChiaDialect::op is proved equal to an operator table written as a specification, and lemmas on that "
             "table show that any subset of the restriction flags (NO_UNKNOWN_OPS, CANONICAL_INTS, DISABLE_OP, LIMIT_SOFTFORK, LIMITS, "
             "LIMIT_HEAP; MEMPOOL_MODE is one) never changes WHICH operator an opcode selects: it can only turn the selection into the "
             "Unimplemented error (modpow under DISABLE_OP, unknown opcodes under NO_UNKNOWN_OPS); (2) uint_atom under CANONICAL_INTS "
             "accepts a subset of what it accepts without and returns the same value; (3) the operators under contract (if, cons, first, "
             "rest, listp, raise, eq, not, any, all, strlen, concat, substr, >s, lognot, ash, lsh, logand/logior/logxor, coinid, >, *) have value and cost "
             "clauses that do not mention the restriction flags, and div/divmod/mod/modpow mention LIMITS / DISABLE_OP only in the clause that "
             "turns a call into InvalidOpArg; "
             "(4) apply_op's LIMIT_SOFTFORK test only adds a failure. Whole-run monotonicity is the composition of these (relational, not "
             "mechanised); operators not under contract (arithmetic, BLS incl. RELAXED_BLS, hashing) are outside the claim.",
        note=TB + "The 47 operator functions enter the dispatch proof as ASSUMED deterministic witnesses (listed one by one).",
        tech="contract-based deductive verification (Verus): the real 45-arm dispatch (after rewrite R17) against a table specification, plus lemmas over the table",
        ref="4/C07, 11.1"),
}
