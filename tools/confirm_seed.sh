#!/bin/sh
# usage: tools/confirm_seed.sh <seed dir>...   Confirms in a scratch worktree of /repo (HEAD) that each
# seeded change (a) applies, (b) compiles, (c) passes the existing suite (clvmr package), (d) fails its
# demo, and that (e) the demo passes on the unchanged tree.  Writes <seed dir>/confirm.json.
WT=/tmp/wt_confirm
export CARGO_NET_OFFLINE=true CARGO_TARGET_DIR=/tmp/wt_confirm_target
[ -d $WT ] || git -C /repo worktree add -q --detach $WT HEAD
cd $WT && git checkout -q --detach $(git -C /repo rev-parse HEAD) && git checkout -q -- . && git clean -fdq tests
for d in "$@"; do
  name=$(basename $d)
  demo=tests/seed_demo_$name.rs
  git checkout -q -- . ; git clean -fdq tests
  cp $d/demo.rs $demo
  cargo test --offline -p clvmr --test seed_demo_$name >/tmp/confirm_$name.clean.log 2>&1; clean_rc=$?
  if git apply $d/patch.diff 2>/tmp/confirm_$name.apply.log; then applied=true; else applied=false; fi
  cargo test --offline -p clvmr --test seed_demo_$name >/tmp/confirm_$name.mut.log 2>&1; mut_rc=$?
  rm -f $demo
  cargo test --offline -p clvmr >/tmp/confirm_$name.suite.log 2>&1; suite_rc=$?
  git checkout -q -- . ; git clean -fdq tests
  printf '{"seed":"%s","applies":%s,"demo_on_unchanged_rc":%s,"demo_with_change_rc":%s,"suite_with_change_rc":%s,"confirmed":%s}\n' \
    $name $applied $clean_rc $mut_rc $suite_rc $( [ $applied = true ] && [ $clean_rc = 0 ] && [ $mut_rc != 0 ] && [ $suite_rc = 0 ] && echo true || echo false ) > $d/confirm.json
  cat $d/confirm.json
done
