#!/usr/bin/env python3
"""Proof-stability sweep: every unit under N solver seeds (no cache); lists functions that fail under
some seed but not all (candidates for a more explicit proof).  usage: tools/stability.py [N] [unit ...]"""
import sys, os, json, subprocess, re
sys.path.insert(0, os.path.dirname(os.path.abspath(__file__)))
import runner as R
import vspec as VS
n = int(sys.argv[1]) if len(sys.argv) > 1 and sys.argv[1].isdigit() else 3
units, _ = VS.load_all(os.path.join(R.VERIF, "contracts"))
names = [a for a in sys.argv[2:] if not a.isdigit()] or sorted(units)
for u in names:
    fails = {}
    for seed in range(n):
        r = R.UnitRun(u, "thorough", rlimit=(units[u].rlimit or None), extra_args=["--smt-option", f"smt.random_seed={seed * 37 + 1}"], use_cache=False)
        try:
            r.assemble(); r.run()
        except Exception as e:
            print(u, "seed", seed, "ERROR", str(e)[:200]); continue
        for f in r.failures:
            if f.get("fn_info") and f["fn_info"]["mode"] == "home":
                fails.setdefault((f["fn"], tuple(f["labels"] or [f["kind"]])), set()).add(seed)
        for h in r.rlimit_hits:
            fails.setdefault((h, ("rlimit",)), set()).add(seed)
        if r.compile_errors:
            print(u, "seed", seed, "COMPILE", r.compile_errors[:1])
    bad = {k: sorted(v) for k, v in fails.items()}
    print(u, "OK" if not bad else ("UNSTABLE " + json.dumps({f"{k[0]}:{','.join(k[1])}": v for k, v in bad.items()})), flush=True)
