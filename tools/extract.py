"""Assemble one Verus file per unit from /repo's working tree + /verif/contracts.

The verified text is the source text: items are copied as token ranges; every departure is a
logged edit (rule id, source line, before, after) and every addition is wrapped in
/*@L label*/ ... /*@E*/ markers.  fidelity_check() re-tokenises the output, removes the marked
additions and compares the remaining tokens with the source tokens after the logged edits.
"""
import os
import re
import sys
import json
from dataclasses import dataclass, field

sys.path.insert(0, os.path.dirname(__file__))
from rustscan import FileIndex, TokView, tokenize, significant, IDENT, PUNCT, NUM, STR, WS, COMMENT, ScanError  # noqa
import vspec as VS

REPO = os.environ.get("VERIF_REPO", "/repo")
VERIF = os.path.dirname(os.path.dirname(os.path.abspath(__file__)))


class ExtractError(Exception):
    """anything that makes the unit impossible to assemble faithfully -> exit 2"""


@dataclass
class Edit:
    a: int
    b: int
    text: str
    rule: str
    note: str = ""


@dataclass
class Ins:
    at: int            # insert before sig token index `at`
    text: str
    label: str
    order: int = 0


KEEP_DERIVES = ["Clone", "Copy", "PartialEq", "Eq", "Debug"]
STRIP_ROOTS = {"crate", "super", "std", "core", "alloc", "num_traits", "num_bigint", "num_integer",
               "chia_bls", "chia_sha2", "malachite_bigint", "sha3", "rand", "bitvec", "hex_literal"}
INT_TYPES = {"u8": 8, "u16": 16, "u32": 32, "u64": 64, "u128": 128, "usize": 64,
             "i8": 8, "i16": 16, "i32": 32, "i64": 64, "i128": 128, "isize": 64}


def eval_cfg(toks, features):
    """toks: list of token texts inside cfg( ... ). returns bool or raises"""
    pos = 0

    def expr():
        nonlocal pos
        t = toks[pos]
        if t in ("not", "all", "any"):
            pos += 1
            assert toks[pos] == "("
            pos += 1
            vals = []
            while toks[pos] != ")":
                vals.append(expr())
                if toks[pos] == ",":
                    pos += 1
            pos += 1
            if t == "not":
                return not vals[0]
            return all(vals) if t == "all" else any(vals)
        if t == "feature":
            pos += 1
            assert toks[pos] == "="
            pos += 1
            f = toks[pos].strip('"')
            pos += 1
            return f in features
        if t in ("test", "kani", "fuzzing", "chia_network_clvm_rs_verif", "doc"):
            pos += 1
            return False
        if t == "debug_assertions":
            pos += 1
            return True
        if t == "target_family" or t == "target_os" or t == "target_arch":
            pos += 3
            return False
        raise ExtractError(f"cfg predicate not understood: {' '.join(toks)}")
    return expr()


class Source:
    """all source files of a unit, indexed"""

    def __init__(self, unit):
        self.files = {}
        for mod, rel in unit.files.items():
            p = os.path.join(REPO, rel)
            if not os.path.exists(p):
                raise ExtractError(f"lost anchor: source file {rel} does not exist")
            try:
                self.files[mod] = FileIndex(p, mod)
            except ScanError as e:
                raise ExtractError(f"scanner: {e}")
        self.features = unit.features

    def item_cfg_ok(self, fi, it):
        v = fi.v
        for (a, b) in it.attrs:
            if v.is_id(a + 2, "cfg"):
                inner = [v.text(k) for k in range(a + 4, v.match[a + 3])]
                if not eval_cfg(inner, self.features):
                    return False
        # an item inside a cfg'd-off parent
        if it.parent is not None and it.parent.kind in ("impl", "mod", "trait"):
            return self.item_cfg_ok(fi, it.parent)
        return True

    def find(self, path):
        mod = path.split("::", 1)[0]
        if mod not in self.files:
            raise ExtractError(f"unit does not list a %file for module {mod!r} (needed by {path})")
        fi = self.files[mod]
        cands = [it for it in fi.lookup(path) if self.item_cfg_ok(fi, it)]
        # impl blocks: several inherent impls of the same type are legal -> keep all (for methods we look deeper)
        return fi, cands


class Assembler:
    def __init__(self, unit, fnspecs, twins=True, canaries=True):
        self.pattern_names = {}
        self.unit = unit
        self.fnspecs = fnspecs
        self.src = Source(unit)
        self.log = []          # rewrite log entries
        self.out = []          # text chunks
        self.linemap = []      # (first_line, last_line, label, fn, kind)
        self.funcs = {}        # emitted function name -> info
        self.assumptions = []
        self.twins = twins
        self.canaries = canaries
        self.consts = {}
        self.counter = 0
        self.fidelity = []     # (fi, a, b, edits, out_start_chunk, out_end_chunk)
        self.lost = []         # hints / loop invariants whose anchor no longer exists

    # ------------------------------------------------------------------ token rendering
    def lead(self, fi, k):
        """whitespace before sig token k (comments dropped, newlines kept)"""
        v = fi.v
        ai = v.sig[k]
        j = ai - 1
        s = ""
        while j >= 0 and v.all[j].kind in (WS, COMMENT):
            if v.all[j].kind == WS:
                s = v.all[j].text + s
            else:
                if v.all[j].text.startswith("//"):
                    pass
            j -= 1
        # collapse multiple blank lines
        s = re.sub(r"\n[ \t]*\n([ \t]*\n)+", "\n\n", s)
        return s

    def render(self, fi, a, b, edits, inserts):
        """render sig tokens [a,b) applying edits (non-overlapping, sorted) and insertions"""
        edits = sorted(edits, key=lambda e: (e.a, e.b))
        # drop edits nested inside earlier (larger) edits
        flat = []
        for e in edits:
            if flat and e.a < flat[-1].b:
                if e.b <= flat[-1].b:
                    continue
                raise ExtractError(f"overlapping rewrites {flat[-1].rule}/{e.rule} near line {fi.v.t[e.a].line}")
            flat.append(e)
        by_start = {e.a: e for e in flat if e.a != e.b}
        pure = {}
        for e in flat:
            if e.a == e.b:
                pure.setdefault(e.a, []).append(e)
        ins_at = {}
        for i in sorted(inserts, key=lambda i: (i.at, i.order)):
            ins_at.setdefault(i.at, []).append(i)
        out = []
        k = a
        used = []
        while k <= b:
            for e in pure.pop(k, []):
                out.append(" " + e.text + " ")
                used.append(e)
            if k in ins_at:
                for i in ins_at[k]:
                    out.append(f" /*@L {i.label}*/ {i.text} /*@E*/ ")
            if k == b:
                break
            if k in by_start:
                e = by_start[k]
                out.append(self.lead(fi, k) if e.text else "")
                out.append(e.text)
                used.append(e)
                for kk in range(e.a + 1, e.b):
                    if kk in ins_at:
                        raise ExtractError(f"lost anchor: insertion point at line {fi.v.t[kk].line} lies inside text removed by {e.rule}")
                k = e.b
                continue
            out.append(self.lead(fi, k))
            out.append(fi.v.t[k].text)
            k += 1
        for e in used:
            self.log.append({"rule": e.rule, "file": fi.v.path.replace(REPO + "/", ""), "line": fi.v.t[min(e.a, len(fi.v.t) - 1)].line,
                             "before": fi.v.render(e.a, e.b)[:200], "after": e.text[:200], "note": e.note})
        self.fidelity.append((fi, a, b, [e for e in used]))
        return "".join(out)

    # ------------------------------------------------------------------ rewrite rules
    def stmt_extent(self, v, i, end):
        """extent of the 'thing' starting at token i (after attributes): item, statement, field, block"""
        t = v.t[i]
        # block
        if v.is_p(i, "{"):
            return v.match[i] + 1
        j = i
        # skip visibility
        while v.is_id(j) and v.text(j) in ("pub",):
            j += 1
            if v.is_p(j, "("):
                j = v.match[j] + 1
        first = v.text(j) if j < end else ""
        brace_item = first in ("fn", "impl", "mod", "trait", "enum", "struct", "union") or \
            (first in ("const", "unsafe", "async", "extern") and any(v.is_id(q, "fn") for q in range(j, min(j + 4, end))))
        if first in ("if", "match", "while", "for", "loop") and not brace_item:
            # block-like expression statement: ends at the closing brace of its (last) block unless
            # the expression continues (`.method()`, `?`, binary operator ...)
            q = j
            while True:
                while q < end and not v.is_p(q, "{"):
                    if v.t[q].text in "([":
                        q = v.match[q]
                    q += 1
                if q >= end:
                    break
                q = v.match[q] + 1
                if v.is_id(q, "else"):
                    q += 1
                    continue
                break
            if q < end and (v.is_p(q, ";")):
                return q + 1
            if q <= end and not (q < end and v.t[q].kind == PUNCT and v.t[q].text in (".", "?", "+", "-", "*", "/", "&&", "||", "==", "as")) \
                    and not (q < end and v.is_id(q, "as")):
                return q
        k = j
        while k < end:
            tk = v.t[k]
            if tk.kind == PUNCT:
                if tk.text in "([":
                    k = v.match[k]
                elif tk.text == "{":
                    if brace_item:
                        return v.match[k] + 1
                    k = v.match[k]
                elif tk.text == ";":
                    return k + 1
                elif tk.text == ",":
                    return k + 1
                elif tk.text in ")]}":
                    return k
            k += 1
        return end

    def rules_body(self, fi, a, b, fs=None):
        """edits for token range [a,b) of file fi (an item).  returns list[Edit]"""
        v = fi.v
        edits = []
        unit = self.unit
        methods = dict(unit.methods)
        if fs is not None:
            methods.update(fs.methods)
        renames = [([t.text for t in tokenize(src) if t.kind not in (WS, COMMENT)], dst) for src, dst in unit.renames]
        k = a
        while k < b:
            t = v.t[k]
            # ---- attributes (R1, R2, R3)
            if t.kind == PUNCT and t.text == "#" and (v.is_p(k + 1, "[") or (v.is_p(k + 1, "!") and v.is_p(k + 2, "["))):
                ob = k + 1 if v.is_p(k + 1, "[") else k + 2
                cb = v.match[ob]
                name = v.text(ob + 1)
                if name == "cfg":
                    inner = [v.text(q) for q in range(ob + 3, v.match[ob + 2])]
                    ok = eval_cfg(inner, self.src.features)
                    if ok:
                        edits.append(Edit(k, cb + 1, "", "R1", "cfg true: attribute dropped"))
                        k = cb + 1
                    else:
                        # drop the attribute, any further attributes, and the thing it applies to
                        j = cb + 1
                        while v.is_p(j, "#") and v.is_p(j + 1, "["):
                            j = v.match[j + 1] + 1
                        e = self.stmt_extent(v, j, b)
                        rule = "R2" if inner == ["test"] else "R1"
                        edits.append(Edit(k, e, "", rule, "cfg false: " + " ".join(inner)))
                        k = e
                    continue
                if name == "derive":
                    inner = [v.text(q) for q in range(ob + 3, v.match[ob + 2])]
                    names = [x for x in inner if x != ","]
                    kept = [x for x in names if x in KEEP_DERIVES]
                    if "Eq" in kept and "PartialEq" not in kept:
                        kept.remove("Eq")
                    if kept != names:
                        new = f"#[derive({', '.join(kept)})]" if kept else ""
                        edits.append(Edit(k, cb + 1, new, "R3", "derives dropped: " + ",".join(x for x in names if x not in kept)))
                    k = cb + 1
                    continue
                edits.append(Edit(k, cb + 1, "", "R3", f"attribute #{'!' if ob == k + 2 else ''}[{name}..] dropped"))
                k = cb + 1
                continue
            # ---- visibility (R5): all extracted items live in one private module
            if t.kind == IDENT and t.text == "pub" and not (k > a and v.is_p(k - 1, ".")):
                e = k + 1
                if v.is_p(e, "(") and v.text(e + 1) in ("crate", "super", "in", "self"):
                    e = v.match[e] + 1
                edits.append(Edit(k, e, "", "R5", "visibility dropped (single module)"))
                k = e
                continue
            # ---- `_` function parameters (R13): Verus rejects them; give them a name nobody uses
            if t.kind == IDENT and t.text == "_" and v.is_p(k + 1, ":") and k > a and v.text(k - 1) in ("(", ",") \
                    and not v.is_p(k + 2, ":"):
                edits.append(Edit(k, k + 1, f"unused__{self.counter}", "R13", "`_` parameter named"))
                self.counter += 1
                k += 1
                continue
            # ---- `|_|` closure parameters (R13)
            if t.kind == IDENT and t.text == "_" and k > a and v.is_p(k - 1, "|") and v.is_p(k + 1, "|"):
                edits.append(Edit(k, k + 1, f"unused__{self.counter}", "R13", "`_` closure parameter named"))
                self.counter += 1
                k += 1
                continue
            # ---- use statements inside bodies (R5)
            if t.kind == IDENT and t.text == "use" and (k == a or v.text(k - 1) in ("{", ";", "}")):
                j = k
                while not v.is_p(j, ";"):
                    j += 1
                edits.append(Edit(k, j + 1, "", "R5", "use dropped"))
                k = j + 1
                continue
            # ---- debug_assert! (R8)
            if t.kind == IDENT and t.text in ("debug_assert", "debug_assert_eq") and v.is_p(k + 1, "!"):
                edits.append(Edit(k, k + 1, "assert" if t.text == "debug_assert" else "assert_eq", "R8", "debug_assert -> assert"))
                k += 1
                continue
            # ---- explicit renames (R5/R7)
            hit = False
            if t.kind == IDENT or t.text in ("&", "("):
                for seq, dst in renames:
                    n = len(seq)
                    if k + n <= b and [v.text(q) for q in range(k, k + n)] == seq and not (k > a and v.is_p(k - 1, "::")):
                        if not (n == 1 and (v.is_p(k - 1, ".") or v.is_p(k + 1, "::"))):
                            edits.append(Edit(k, k + n, dst, "R16" if seq[0] == "&" else ("R7" if dst[:1].isupper() else "R5"), f"{' '.join(seq)} -> {dst}"))
                            k += n
                            hit = True
                            break
            if hit:
                continue
            # ---- path prefix stripping (R5)
            if t.kind == IDENT and t.text in STRIP_ROOTS and v.is_p(k + 1, "::") and not (k > a and v.is_p(k - 1, "::")) \
                    and not (k > a and v.is_p(k - 1, ".")):
                j = k + 2
                while v.is_id(j) and v.text(j)[0].islower() and v.text(j) not in INT_TYPES and v.is_p(j + 1, "::") \
                        and v.is_id(j + 2):
                    j += 2
                # `super::` may be repeated
                edits.append(Edit(k, j, "", "R5", "path prefix " + v.render(k, j) + " dropped"))
                k = j
                continue
            # ---- method renames (R6)
            if t.kind == IDENT and t.text in methods and v.is_p(k - 1, ".") and v.is_p(k + 1, "("):
                edits.append(Edit(k, k + 1, methods[t.text], "R6", f".{t.text}() -> .{methods[t.text]}()"))
                k += 1
                continue
            # path-call renames like u32::from_be_bytes -> handled via %rename
            # ---- array patterns (R11): let [a, b] = e;   /  let ([a,b,c], n) = e;
            if t.kind == IDENT and t.text == "let" and (v.is_p(k + 1, "[") or (v.is_p(k + 1, "(") and v.is_p(k + 2, "["))):
                e = self.rule_r11(v, k, b)
                if e:
                    edits.extend(e[0])
                    k = e[1]
                    continue
            # ---- R15: reference pattern in let-else: `let Some(&x) = e else { .. };` -> bind the reference, then copy
            if t.kind == IDENT and t.text == "let" and v.is_id(k + 1, "Some") and v.is_p(k + 2, "(") and v.is_p(k + 3, "&") \
                    and v.is_id(k + 4) and v.is_p(k + 5, ")") and v.is_p(k + 6, "="):
                name = v.text(k + 4)
                j = k + 7
                while j < b and not v.is_p(j, ";"):
                    if v.t[j].text in "([{":
                        j = v.match[j]
                    j += 1
                edits.append(Edit(k + 3, k + 5, f"{name}__r", "R15", "reference pattern -> bound reference"))
                edits.append(Edit(j + 1, j + 1, f"let {name} = *{name}__r;", "R15", "copy out of the bound reference"))
            # ---- R11b: the one refutable use `if let Ok([v]) = e {`  ->  `if let Ok(t__k) = e { let v = t__k[0];`
            if t.kind == IDENT and t.text == "if" and v.is_id(k + 1, "let") and v.is_id(k + 2, "Ok") and v.is_p(k + 3, "(") \
                    and v.is_p(k + 4, "[") and v.is_p(v.match[k + 4] + 1, ")") and v.is_p(v.match[k + 4] + 2, "="):
                ob = k + 4
                cb = v.match[ob]
                names = [v.text(q) for q in range(ob + 1, cb) if v.text(q) != ","]
                j = cb + 3
                while j < b and not v.is_p(j, "{"):
                    if v.t[j].text in "([":
                        j = v.match[j]
                    j += 1
                tmp = f"t__{self.counter}"
                self.counter += 1
                edits.append(Edit(ob, cb + 1, tmp, "R11", "array pattern inside Ok(..) -> temporary"))
                edits.append(Edit(j + 1, j + 1, " ".join(f"let {n} = {tmp}[{i}];" for i, n in enumerate(names)), "R11", "array pattern element reads"))
            # ---- let chains (R12)
            if t.kind == IDENT and t.text == "if" and v.is_id(k + 1, "let"):
                e = self.rule_r12(v, k, b)
                if e:
                    edits.extend(e)
                    # continue scanning inside (other rules still apply to sub-tokens that are not edited)
            # ---- R23: a left shift of one integer literal by another (`1u32 << 31`, `1 << 10`) is written as its value, as
            # rustc's constant evaluation does; only where neither operand can belong to a tighter-binding neighbour
            if t.kind == NUM and v.is_p(k + 1, "<<") and k + 2 < b and v.t[k + 2].kind == NUM and k > a:
                m1 = re.match(r"^(0x[0-9a-fA-F_]+|0b[01_]+|0o[0-7_]+|[0-9][0-9_]*)((?:[iu](?:8|16|32|64|128|size))?)$", t.text)
                m2 = re.match(r"^(0x[0-9a-fA-F_]+|0b[01_]+|0o[0-7_]+|[0-9][0-9_]*)((?:[iu](?:8|16|32|64|128|size))?)$", v.text(k + 2))
                before_ok = v.text(k - 1) in ("(", ",", "=", "<", ">", "<=", ">=", "==", "!=", "&&", "||", "return", "{", ";", "=>", "..", "..=", "|", "^")
                after_ok = v.text(k + 3) in (")", ",", ";", "{", "}", "]", "<", ">", "<=", ">=", "==", "!=", "&&", "||", "|", "^", "&", "=>", "..", "..=")
                if m1 and m2 and before_ok and after_ok:
                    lhs = int(m1.group(1).replace("_", ""), 0)
                    rhs = int(m2.group(1).replace("_", ""), 0)
                    suf = m1.group(2)
                    bits = INT_TYPES.get(suf, 128)
                    val = lhs << rhs if rhs < 128 else None
                    top = (1 << (bits - 1)) if suf.startswith("i") else (1 << bits)
                    if val is not None and rhs < bits and val < top:
                        edits.append(Edit(k, k + 3, f"{val}{suf}", "R23", f"constant shift {v.render(k, k + 3)} folded to {val}"))
                        k += 3
                        continue
            # ---- function-pointer selection fused with its single call (R17)
            if t.kind == IDENT and t.text == "let" and v.is_id(k + 1) and v.is_p(k + 2, "=") and v.is_id(k + 3, "match"):
                e = self.rule_r17(v, k, b)
                if e:
                    edits.extend(e)
            k += 1
        return edits

    def rule_r17(self, v, k, b):
        """R17: `let f = match E { P => name, Q => { ..; name } , _ => { return ..; } }; ... f(args)`
        where f is used exactly once, as the callee of a call whose arguments are plain identifiers:
        the call is moved into the arms (`P => name(args)`), the binding then holds the call's result.
        Verus has no function-pointer values; the rewrite is semantics-preserving because the
        arguments are side-effect-free variable reads.  Returns None when the pattern does not apply."""
        f = v.text(k + 1)
        j = k + 4
        while j < b and not v.is_p(j, "{"):
            if v.t[j].text in "([":
                j = v.match[j]
            j += 1
        if j >= b:
            return None
        mo, mc = j, v.match[j]
        if not v.is_p(mc + 1, ";"):
            return None
        # the binding's scope: up to the end of the enclosing block
        scope_end = b
        for q0 in range(k - 1, -1, -1):
            if v.is_p(q0, "{") and v.match.get(q0, -1) > k:
                scope_end = min(b, v.match[q0])
                break
        uses = [q for q in range(mc + 2, scope_end) if v.t[q].kind == IDENT and v.text(q) == f and not v.is_p(q - 1, ".")]
        if len(uses) != 1 or not v.is_p(uses[0] + 1, "("):
            return None
        ca = uses[0]
        cb = v.match[ca + 1]
        arg_toks = [v.text(q) for q in range(ca + 2, cb)]
        if any(not (re.match(r"^[A-Za-z_][A-Za-z0-9_]*$", a) or a == ",") for a in arg_toks):
            return None
        args = " ".join(arg_toks)
        edits = []
        fused = 0
        q = mo + 1
        while q < mc:
            # pattern up to `=>` at depth 0
            while q < mc and not v.is_p(q, "=>"):
                if v.t[q].text in "([{":
                    q = v.match[q]
                q += 1
            if q >= mc:
                break
            q += 1
            if v.is_p(q, "{"):
                bo, bc = q, v.match[q]
                last = bc - 1
                if v.is_p(last, ";"):
                    if not any(v.is_id(x, "return") for x in range(bo, bc)):
                        return None
                elif v.t[last].kind == IDENT:
                    st = last
                    while v.is_p(st - 1, "::") and v.is_id(st - 2):
                        st -= 2
                    if v.t[st - 1].text not in (";", "}", "{"):
                        return None
                    edits.append(Edit(last + 1, last + 1, f"({args})", "R17", f"call moved into the arm selecting {v.text(last)}"))
                    fused += 1
                else:
                    return None
                q = bc + 1
                if v.is_p(q, ","):
                    q += 1
            else:
                st = q
                while q < mc and not v.is_p(q, ","):
                    if v.t[q].text in "([{":
                        q = v.match[q]
                    q += 1
                toks = [v.text(x) for x in range(st, q)]
                if not toks or any(not (re.match(r"^[A-Za-z_][A-Za-z0-9_]*$", a) or a == "::") for a in toks):
                    return None
                edits.append(Edit(q, q, f"({args})", "R17", f"call moved into the arm selecting {' '.join(toks)}"))
                fused += 1
                if v.is_p(q, ","):
                    q += 1
        if not fused:
            return None
        edits.append(Edit(k + 1, k + 2, f + "__r", "R17", "binding holds the call's result"))
        edits.append(Edit(ca, cb + 1, f + "__r", "R17", "call site replaced by the fused result"))
        return edits

    def rule_r11(self, v, k, b):
        tmp = f"t__{self.counter}"
        if v.is_p(k + 1, "["):
            ob = k + 1
            cb = v.match[ob]
            names = [v.text(q) for q in range(ob + 1, cb) if v.text(q) != ","]
            if not all(re.match(r"^[a-z_][a-z0-9_]*$", n) for n in names) or not v.is_p(cb + 1, "="):
                return None
            # find end of statement
            j = cb + 2
            while not v.is_p(j, ";"):
                if v.t[j].text in "([{":
                    j = v.match[j]
                j += 1
            self.counter += 1
            tail = " ".join(f"let {n} = {tmp}[{i}];" for i, n in enumerate(names))
            return [Edit(ob, cb + 1, tmp, "R11", "array pattern -> temporary"),
                    Edit(j + 1, j + 1, tail, "R11", "array pattern element reads")], cb + 1
        # tuple containing one array pattern: let ([a, b, c], n) = e;
        op = k + 1
        cp = v.match[op]
        ob = op + 1
        cb = v.match[ob]
        names = [v.text(q) for q in range(ob + 1, cb) if v.text(q) != ","]
        if not all(re.match(r"^[a-z_][a-z0-9_]*$", n) for n in names) or not v.is_p(cp + 1, "="):
            return None
        j = cp + 2
        while not v.is_p(j, ";"):
            if v.t[j].text in "([{":
                j = v.match[j]
            j += 1
        self.counter += 1
        tail = " ".join(f"let {n} = {tmp}[{i}];" for i, n in enumerate(names))
        return [Edit(ob, cb + 1, tmp, "R11", "array pattern -> temporary"),
                Edit(j + 1, j + 1, tail, "R11", "array pattern element reads")], cb + 1

    def rule_r12(self, v, k, b):
        """if let P = e && c && let Q = e2 { body }   (no else)  -> nested ifs"""
        # find body brace: first '{' at depth 0 after k
        j = k + 1
        ands = []
        while j < b and not v.is_p(j, "{"):
            if v.t[j].text in "([":
                j = v.match[j]
            elif v.is_p(j, "&&"):
                ands.append(j)
            j += 1
        if not ands:
            return None
        ob = j
        cb = v.match[ob]
        if v.is_id(cb + 1, "else"):
            raise ExtractError(f"R12: let-chain with else at line {v.t[k].line} is outside the supported fragment")
        edits = []
        # R11c: `let Some([x, y]) = e` inside the chain: bind a temporary, read the elements in the
        # scope the condition opens (array patterns are outside Verus's fragment)
        starts = [k + 1] + [a_ + 1 for a_ in ands]
        ends = ands + [ob]
        decls = {}
        for si, (sa, se) in enumerate(zip(starts, ends)):
            if not v.is_id(sa, "let"):
                continue
            q = sa + 1
            while q < se and not v.is_p(q, "="):
                if v.is_p(q, "[") and v.is_p(q - 1, "("):
                    qb = v.match[q]
                    names = [v.text(x) for x in range(q + 1, qb) if v.t[x].kind == IDENT]
                    tmp = f"arr__{self.counter}"
                    self.counter += 1
                    edits.append(Edit(q, qb + 1, tmp, "R11", "array pattern inside a let-chain -> temporary"))
                    decls[si] = " ".join(f"let {n} = {tmp}[{i}];" for i, n in enumerate(names))
                    q = qb
                q += 1
        for i, a_ in enumerate(ands):
            d = decls.get(i, "")
            edits.append(Edit(a_, a_ + 1, "{ " + d + " if", "R12", "let-chain && -> nested if"))
        if len(ands) in decls:
            edits.append(Edit(ob + 1, ob + 1, decls[len(ands)], "R11", "array pattern element reads"))
        edits.append(Edit(cb + 1, cb + 1, "}" * len(ands), "R12", "closing braces for nested ifs"))
        return edits

    # ------------------------------------------------------------------ constants (R4)
    def fold_const(self, v, it):
        """const NAME: T = expr;  -> literal text or None"""
        # tokens: [attrs] [pub] const NAME : T = expr ;
        k = it.kw
        eq = None
        for q in range(k, it.end):
            if v.is_p(q, "="):
                eq = q
                break
        if eq is None:
            return None
        ty = v.text(eq - 1)
        expr = [v.t[q] for q in range(eq + 1, it.end - 1)]
        if len(expr) == 1 and expr[0].kind == NUM:
            val = self.parse_int(expr[0].text)
            if val is not None:
                self.consts[it.name] = val
            return None
        if ty not in INT_TYPES and ty != "Cost":
            return None
        try:
            val = self.eval_int(expr)
        except Exception:
            return None
        bits = INT_TYPES.get(ty, 64)
        signed = ty.startswith("i")
        lo, hi = (-(1 << (bits - 1)), (1 << (bits - 1)) - 1) if signed else (0, (1 << bits) - 1)
        if not (lo <= val <= hi):
            raise ExtractError(f"R4: constant {it.name} folds to {val}, out of range for {ty}")
        self.consts[it.name] = val
        return (eq + 1, it.end - 1, str(val))

    @staticmethod
    def parse_int(text):
        m = re.match(r"^(0x[0-9a-fA-F_]+|0b[01_]+|0o[0-7_]+|[0-9][0-9_]*)([iu](8|16|32|64|128|size))?$", text)
        if not m:
            return None
        return int(m.group(1).replace("_", ""), 0)

    def eval_int(self, toks):
        out = []
        i = 0
        while i < len(toks):
            t = toks[i]
            if t.kind == NUM:
                val = self.parse_int(t.text)
                if val is None:
                    raise ValueError
                out.append(str(val))
            elif t.kind == IDENT:
                if t.text == "as":
                    i += 2
                    continue
                if t.text in INT_TYPES and i + 2 < len(toks) and toks[i + 1].text == "::" and toks[i + 2].text in ("MAX", "MIN"):
                    bits = INT_TYPES[t.text]
                    s = t.text.startswith("i")
                    mx = (1 << (bits - 1)) - 1 if s else (1 << bits) - 1
                    mn = -(1 << (bits - 1)) if s else 0
                    out.append(str(mx if toks[i + 2].text == "MAX" else mn))
                    i += 3
                    continue
                if t.text in self.consts:
                    out.append(str(self.consts[t.text]))
                else:
                    raise ValueError
            elif t.kind == PUNCT and t.text in ("+", "-", "*", "<<", ">>", "|", "&", "^", "(", ")"):
                out.append(t.text)
            elif t.kind == PUNCT and t.text == "/":
                out.append("//")
            else:
                raise ValueError
            i += 1
        return int(eval(" ".join(out), {"__builtins__": {}}))

    # ------------------------------------------------------------------ emitting
    def emit(self, text):
        self.out.append(text)

    def cur_line(self):
        return sum(c.count("\n") for c in self.out) + 1

    def check_same_item(self, pa, pb):
        """%sameitem A B: item A (not emitted) must be token-for-token the item B that the unit
        emits (two source files define the same private constant / enum; the single-module unit
        can hold only one).  A difference is a scaffolding failure (undecided), never a pass."""
        def toks(path):
            fi, cands = self.src.find(path)
            cands = [c for c in (cands or []) if c.kind != "impl"]
            if not cands:
                raise ExtractError(f"lost anchor: item {path} not found")
            it = cands[0]
            return [fi.v.text(q) for q in range(it.start, it.end) if fi.v.t[q].kind not in (WS, COMMENT)]
        ta, tb = toks(pa), toks(pb)
        if ta != tb:
            raise ExtractError(f"items {pa} and {pb} are no longer identical: the unit would verify {pb} in place of {pa}")
        self.log.append({"rule": "R18", "file": "", "line": 0, "note": f"{pa} is represented by the identical item {pb}"})

    def emit_item(self, path, flags):
        fi, cands = self.src.find(path)
        if not cands and "optional" in flags:
            # an item that exists only in some builds (cfg)
            self.log.append({"rule": "R1", "file": "", "line": 0, "note": f"item {path} does not exist in this build (cfg): skipped"})
            return
        if not cands:
            raise ExtractError(f"lost anchor: item {path} not found in {fi.v.path}")
        v = fi.v
        cands = [c for c in cands if (c.kind == "impl") == ("impl" in flags)]
        if not cands and "optional" in flags:
            return
        if not cands:
            raise ExtractError(f"lost anchor: item {path} ({'impl' if 'impl' in flags else 'non-impl'}) not found")
        for it in cands:
            edits = self.rules_body(fi, it.start, it.end)
            inserts = []
            if it.kind == "const":
                f = self.fold_const(v, it)
                if f:
                    edits.append(Edit(f[0], f[1], f[2] + " /* " + v.render(f[0], f[1]).replace("*/", "* /") + " */", "R4", "constant folded"))
            if ("const:" + path) in self.unit.derives and it.kind == "const":
                # R14: `const N: T = e;` -> `exec const N: T ensures <spec> { e }` (Verus consts are
                # dual-mode by default and may not call exec functions)
                eq = next(q for q in range(it.kw, it.end) if v.is_p(q, "="))
                inserts.append(Ins(it.kw, "exec", "exec-const"))
                cs_text = self.unit.derives["const:" + path]
                cs_lab = VS.LABEL_RE.match(cs_text)
                cs_labels = cs_lab.group(1).split() if cs_lab else []
                if cs_lab:
                    cs_text = cs_text[cs_lab.end():]
                cs_mark = ("/*@C " + ",".join(cs_labels) + "*/ ") if cs_labels else "/*@C -*/ "
                cproof = self.unit.derives.get("constproof:" + path)
                edits.append(Edit(eq, eq + 1, "/*@L constspec*/ ensures\n " + cs_mark + cs_text + "\n /*@E*/ {" + (" let c__v =" if cproof else ""), "R14", "const initialiser becomes the body of an exec const"))
                const_reg = (it.name, path, sorted({l.split(".")[0] for l in cs_labels}))
                edits.append(Edit(it.end - 1, it.end, ("; /*@L constproof*/ proof { " + cproof + " } /*@E*/ c__v }") if cproof else "}", "R14", "const initialiser becomes the body of an exec const"))
            if path in self.unit.derives and it.kind in ("struct", "enum"):
                inserts.append(Ins(it.head, f"#[derive({self.unit.derives[path]})]", "derive"))
            if "external_body" in flags:
                inserts.append(Ins(it.head, "#[verifier::external_body]", "external_body"))
                self.assumptions.append(f"external_body on item {path}")
            edits.append(Edit(it.head, it.head, "", "NOP", "")) if False else None
            self.emit("\n\n")
            first = self.cur_line()
            self.emit(self.pubify(self.render(fi, it.start, it.end, edits, inserts)) + "\n")
            last = self.cur_line()
            if it.kind == "const" and ("const:" + path) in self.unit.derives:
                # an exec const with a specification is an obligation holder like a function
                self.funcs.setdefault(const_reg[0], []).append({"path": const_reg[1], "mode": "home", "first": first, "last": last,
                                                                 "props": const_reg[2], "src_line": v.t[it.kw].line,
                                                                 "file": fi.v.path.replace(REPO + "/", ""), "bodyless": False, "const": True})

    @staticmethod
    def pubify(text):
        return text

    def find_fn(self, path):
        path = path.split("#")[0]      # `PATH#TAG`: a specialised copy (R19) of PATH
        fi, cands = self.src.find(path)
        cands = [c for c in cands if c.kind == "fn"]
        if not cands:
            raise ExtractError(f"lost anchor: function {path} not found")
        if len(cands) > 1:
            raise ExtractError(f"ambiguous function {path} ({len(cands)} candidates after cfg)")
        return fi, cands[0]

    def sig_parts(self, v, it):
        """returns (name_idx, params_open, params_close, arrow_idx or None, ret_a, ret_b, where_idx or None, body_open)"""
        k = it.kw + 1
        name_idx = k
        j = k + 1
        if v.is_p(j, "<"):
            depth = 0
            while True:
                if v.is_p(j, "<"):
                    depth += 1
                elif v.is_p(j, ">"):
                    depth -= 1
                elif v.is_p(j, ">>"):
                    depth -= 2
                j += 1
                if depth <= 0:
                    break
        if not v.is_p(j, "("):
            raise ExtractError(f"cannot find parameter list of {it.name}")
        po, pc = j, v.match[j]
        body_open = it.body[0] if it.body else it.end - 1
        arrow = pc + 1 if v.is_p(pc + 1, "->") else None
        where = None
        for q in range(pc + 1, body_open):
            if v.is_id(q, "where"):
                where = q
                break
        ret_a = arrow + 1 if arrow is not None else None
        ret_b = (where if where is not None else body_open) if arrow is not None else None
        return name_idx, po, pc, arrow, ret_a, ret_b, where, body_open

    def spec_text(self, fs, text, fn_emit_name, kind):
        """turn labelled spec text into Verus clause text; register line ranges lazily via markers"""
        clauses = VS.split_clauses(text) if isinstance(text, str) else text
        out = []
        section = None
        for sec, labels, body in clauses:
            if sec != section:
                out.append(f"\n    {sec}")
                section = sec
            lab = ",".join(labels) if labels else "-"
            out.append(f"\n        /*@C {lab}*/ {body}")
        return "".join(out) + "\n"

    def find_loops(self, v, a, b):
        """loop keyword indices inside body token range (a,b), source order (nested included)"""
        res = []
        k = a
        while k < b:
            t = v.t[k]
            if t.kind == IDENT and t.text in ("while", "for", "loop"):
                prev = v.text(k - 1) if k > a else "{"
                if t.text == "for" and (v.is_p(k + 1, "<") or prev in ("impl", ">")):
                    k += 1
                    continue
                # find body brace
                j = k + 1
                while j < b and not v.is_p(j, "{"):
                    if v.t[j].text in "([":
                        j = v.match[j]
                    j += 1
                res.append((k, j))
            k += 1
        return res

    def find_closures(self, v, a, b):
        """immediately-invoked closures `( || -> T { .. } ) ( )` inside (a,b): list of (open, type_start, body_open, body_close, end)"""
        res = []
        k = a
        while k < b:
            if v.is_p(k, "(") and v.is_p(k + 1, "||") and v.is_p(k + 2, "->"):
                j = k + 3
                while j < b and not v.is_p(j, "{"):
                    j += 1
                if j < b:
                    cb = v.match[j]
                    if v.is_p(cb + 1, ")") and v.is_p(cb + 2, "(") and v.is_p(cb + 3, ")"):
                        res.append((k, k + 3, j, cb, cb + 4))
                        k = cb + 4
                        continue
            k += 1
        return res

    def emit_closure_fn(self, fs, mode):
        """R20 (lambda lifting): the N-th immediately-invoked closure of the host function, emitted as a function of its own
        whose parameters are the captured variables (declared in the contract file); variables captured by mutable
        reference are dereferenced.  The closure body is the real source text, rewritten by the same rules as any body."""
        fi, it = self.find_fn(fs.path)
        v = fi.v
        name_idx = self.sig_parts(v, it)[0]
        src_name = v.text(name_idx)
        tag = fs.path.split("#")[1]
        base_name = src_name + "__" + tag
        emit_name = base_name + {"home": "", "canary": "__canary"}[mode]
        body_a, body_b = it.body[0] + 1, it.body[1]
        # cfg-removed regions of the host are invisible
        host_edits = self.rules_body(fi, it.start, it.end, None)
        removed = [(e.a, e.b) for e in host_edits if e.rule in ("R1", "R2") and e.text == "" and e.b - e.a > 3]
        cls = [c for c in self.find_closures(v, body_a, body_b) if not any(ra <= c[0] < rb for ra, rb in removed)]
        if fs.closure > len(cls):
            if fs.closure_optional:
                self.log.append({"rule": "R20", "file": fi.v.path.replace(REPO + "/", ""), "line": v.t[it.kw].line, "note": f"closure {fs.closure} of {src_name} absent in this build: {emit_name} not emitted"})
                return None
            raise ExtractError(f"lost anchor: {fs.path}: the function has {len(cls)} immediately-invoked closures, contract is for number {fs.closure}")
        k0, ty_a, cb_open, cb_close, end = cls[fs.closure - 1]
        head = f"/*@L lifted*/ " + " ".join(fs.attrs if mode == "home" else []) + f" fn {emit_name}{fs.sig} /*@E*/"
        if mode == "canary":
            cl = [c for c in VS.split_clauses(fs.spec) if c[0] == "requires"]
            text = "requires\n" + "\n".join(c[2] for c in cl) + "\n" if cl else ""
            spec = self.spec_text(fs, text, emit_name, mode) if text.strip() else ""
            text_out = head + f" /*@L canary*/ {spec} {{ assert(false); }} /*@E*/"
        else:
            edits = self.rules_body(fi, ty_a, cb_close + 1, fs)
            for k in range(cb_open + 1, cb_close):
                if v.t[k].kind == IDENT and v.text(k) in fs.deref and not v.is_p(k - 1, ".") and not v.is_p(k - 1, "::") and not (v.is_p(k + 1, ":") and not v.is_p(k + 1, "::")):
                    edits.append(Edit(k, k + 1, f"(*{v.text(k)})", "R20", f"captured by mutable reference: {v.text(k)} -> (*{v.text(k)})"))
            inserts = [Ins(ty_a, f"({fs.ret}:", "ret", 0), Ins(cb_open, ")", "ret", 0)]
            spec = self.spec_text(fs, fs.spec, emit_name, mode) if fs.spec.strip() else ""
            if spec:
                inserts.append(Ins(cb_open, spec, f"spec:{fs.path}:{mode}", 1))
            self._removed = []
            loops = self.find_loops(v, cb_open + 1, cb_close)
            for n, (itname, ltext) in fs.loops.items():
                if n > len(loops):
                    self.lost.append({"fn": fs.path, "emitted": emit_name, "what": f"loop {n} (closure now has {len(loops)} loops)"})
                    continue
                kw, ob = loops[n - 1]
                if itname:
                    q = kw
                    while not v.is_id(q, "in"):
                        q += 1
                    inserts.append(Ins(q + 1, f"{itname}:", "loop-iter"))
                inserts.append(Ins(ob, self.spec_text(fs, ltext, emit_name, f"loop{n}"), f"loop:{fs.path}:{n}"))
            for h in fs.hints:
                r = self.find_anchor(v, cb_open + 1, cb_close, h.anchor, h.occ)
                if r is None:
                    self.lost.append({"fn": fs.path, "emitted": emit_name, "what": f"occurrence {h.occ} of `{h.anchor}`"})
                    continue
                if h.mode == "before":
                    inserts.append(Ins(r[0], h.text, f"hint:{fs.path}", 2))
                elif h.mode == "past":
                    inserts.append(Ins(r[1], h.text, f"hint:{fs.path}", 2))
                elif h.mode == "wrap":
                    pre, _, post = h.text.partition("\n---\n")
                    inserts.append(Ins(r[0], pre, f"hint:{fs.path}", 3))
                    inserts.append(Ins(r[1], post, f"hint:{fs.path}", -1))
                else:
                    e = self.stmt_end(v, r[0], cb_close)
                    inserts.append(Ins(e, h.text, f"hint:{fs.path}", 2))
            self.log.append({"rule": "R20", "file": fi.v.path.replace(REPO + "/", ""), "line": v.t[k0].line, "note": f"immediately-invoked closure lifted to fn {emit_name}{fs.sig}"})
            text_out = head + " /*@L lifted*/ -> /*@E*/ " + self.render(fi, ty_a, cb_close + 1, edits, inserts)
        first = self.cur_line()
        self.emit("\n" + text_out + "\n")
        last = self.cur_line()
        self.funcs.setdefault(emit_name, []).append({"path": fs.path, "mode": mode, "first": first, "last": last, "props": fs.props,
                                                     "src_line": v.t[k0].line, "file": fi.v.path.replace(REPO + "/", ""), "bodyless": False})
        return fi, it

    def find_anchor(self, v, a, b, anchor, occ):
        seq = [t.text for t in tokenize(anchor) if t.kind not in (WS, COMMENT)]
        n = len(seq)
        cnt = 0
        removed = getattr(self, "_removed", [])
        for k in range(a, b - n + 1):
            if v.t[k].text == seq[0] and [v.text(q) for q in range(k, k + n)] == seq:
                if any(ra <= k < rb for ra, rb in removed):
                    continue
                cnt += 1
                if cnt == occ:
                    return k, k + n
        return None

    def stmt_end(self, v, k, b):
        """index one past the ';' (or closing brace of a block statement) that ends the statement containing k"""
        j = k
        while j < b:
            t = v.t[j]
            if t.kind == PUNCT:
                if t.text in "([{":
                    j = v.match[j]
                    if t.text == "{" and not v.is_p(j + 1, ";") and not v.is_p(j + 1, ".") and not v.is_p(j + 1, "?") \
                            and not v.is_id(j + 1, "else"):
                        # block-like statement end (if/match/loop without trailing ';')
                        # only if the statement started with a block keyword; keep scanning otherwise
                        pass
                elif t.text == ";":
                    return j + 1
                elif t.text in ")]}":
                    return j
            j += 1
        return b

    def emit_fn(self, fs, mode="home", impl_ctx=None):
        """mode: home | strict | canary | extern"""
        if fs.closure:
            if mode not in ("home", "canary"):
                raise ExtractError(f"{fs.path}: a lifted closure has no {mode} form")
            return self.emit_closure_fn(fs, mode)
        fi, it = self.find_fn(fs.path)
        v = fi.v
        name_idx, po, pc, arrow, ret_a, ret_b, where, body_open = self.sig_parts(v, it)
        src_name = v.text(name_idx)
        tag = fs.path.split("#")[1] if "#" in fs.path else None
        base_name = src_name + ("__" + tag if tag else "")
        emit_name = base_name + {"home": "", "strict": "__strict", "canary": "__canary", "extern": ""}[mode]
        edits = []
        inserts = []
        a, b = it.start, it.end
        body_a, body_b = (it.body[0] + 1, it.body[1]) if it.body else (b, b)
        if tag:
            # R19: specialisation of a function-pointer parameter (Verus has no function pointer types): the parameter is
            # dropped from the signature and every call through it calls the named function
            if mode in ("home", "extern"):
                edits.append(Edit(name_idx, name_idx + 1, emit_name, "R19", f"specialised copy {emit_name} of {src_name}"))
            for prm, fn_name in fs.specialize.items():
                k = po + 1
                hit = False
                while k < pc:
                    if v.is_id(k, prm) and v.is_p(k + 1, ":"):
                        j = k
                        depth = 0
                        while j < pc and not (depth == 0 and v.is_p(j, ",")):
                            if v.text(j) in ("(", "[", "<"):
                                depth += 1
                            elif v.text(j) in (")", "]", ">"):
                                depth -= 1
                            elif v.text(j) == "->":
                                pass
                            j += 1
                        edits.append(Edit(k, j + 1 if v.is_p(j, ",") else j, "", "R19", f"function-pointer parameter {prm} dropped (calls go to {fn_name})"))
                        hit = True
                        break
                    k += 1
                if not hit:
                    raise ExtractError(f"lost anchor: {fs.path}: parameter {prm} not found")
                if mode in ("home", "strict"):
                    for k in range(body_a, body_b):
                        if v.is_id(k, prm) and v.is_p(k + 1, "(") and not v.is_p(k - 1, "."):
                            edits.append(Edit(k, k + 1, fn_name, "R19", f"call through {prm} -> {fn_name}"))

        if mode in ("home", "strict"):
            edits += self.rules_body(fi, a, b, fs)
        else:
            # signature only: rules on the signature range
            edits += self.rules_body(fi, a, body_open, fs)
        if mode != "home":
            edits.append(Edit(name_idx, name_idx + 1, emit_name, "TWIN", f"{mode} twin of {base_name}")) if mode in ("strict", "canary") else None
        for at in fs.attrs:
            if mode in ("home", "strict"):
                inserts.append(Ins(it.head, at, "attr"))
        if mode == "extern":
            inserts.append(Ins(it.head, "#[verifier::external_body]", "extern"))
        # named return value
        if arrow is not None and mode != "canary":
            inserts.append(Ins(ret_a, f"({fs.ret}:", "ret", 0))
            inserts.append(Ins(ret_b, ")", "ret", 0))
        # spec
        text = fs.spec
        if mode == "strict":
            # the strict twin carries the home spec with the clauses named in %strict replaced by
            # the text exactly as the property states it
            base = VS.split_clauses(fs.spec)
            over = {tuple(c[1]): c for c in VS.split_clauses("ensures\n" + fs.strict) if c[1]}
            missing = [k for k in over if not any(tuple(c[1] or ()) == k for c in base)]
            if missing:
                raise ExtractError(f"{fs.path}: %strict names labels that the %spec does not carry: {missing}")
            text = [list(over.get(tuple(c[1] or ()), c)) for c in base]
            for c in text:
                c[0] = c[0] or "ensures"
        if mode == "canary":
            # requires only
            cl = [c for c in VS.split_clauses(fs.spec) if c[0] == "requires"]
            text = "requires\n" + "\n".join(c[2] for c in cl) + "\n" if cl else ""
        spec = self.spec_text(fs, text, emit_name, mode) if (text if not isinstance(text, str) else text.strip()) else ""
        if spec:
            inserts.append(Ins(body_open, spec, f"spec:{fs.path}:{mode}", 1))

        if mode in ("home", "strict"):
            # text removed by cfg evaluation (R1/R2) is invisible to loop ordinals and anchors
            removed = [(e.a, e.b) for e in edits if e.rule in ("R1", "R2") and e.text == "" and e.b - e.a > 3]
            if fs.callclosure:
                # R20: the immediately-invoked closures named in the contract file are replaced by calls to their lifted copies
                cls = [c for c in self.find_closures(v, body_a, body_b) if not any(ra <= c[0] < rb for ra, rb in removed)]
                for n, call in fs.callclosure.items():
                    if n <= len(cls):
                        k0, _, _, _, end = cls[n - 1]
                        edits = [e for e in edits if not (k0 <= e.a and e.b <= end)]
                        edits.append(Edit(k0, end, call, "R20", f"immediately-invoked closure {n} -> {call.split('(')[0]}(..)"))
                        removed.append((k0, end))
            self._removed = removed
            loops = [l for l in self.find_loops(v, body_a, body_b) if not any(ra <= l[0] < rb for ra, rb in removed)]
            for n, (itname, ltext) in fs.loops.items():
                if n > len(loops):
                    # the loop the invariant was written for is gone: drop the invariant and say so
                    self.lost.append({"fn": fs.path, "emitted": emit_name, "what": f"loop {n} (function now has {len(loops)} loops)"})
                    continue
                kw, ob = loops[n - 1]
                if itname:
                    # for x in EXPR  -> for x in it: EXPR
                    q = kw
                    while not v.is_id(q, "in"):
                        q += 1
                    inserts.append(Ins(q + 1, f"{itname}:", "loop-iter"))
                inserts.append(Ins(ob, self.spec_text(fs, ltext, emit_name, f"loop{n}"), f"loop:{fs.path}:{n}"))
            for h in fs.hints:
                if h.home_only and mode == "strict":
                    continue
                r = self.find_anchor(v, body_a, body_b, h.anchor, h.occ)
                if r is None:
                    # proof hint whose anchor statement no longer exists: drop the hint and say so; the
                    # runner then refuses to report a failure of this function as a violation unless a
                    # concrete failing input is found on the real code
                    self.lost.append({"fn": fs.path, "emitted": emit_name, "what": f"occurrence {h.occ} of `{h.anchor}`"})
                    continue
                if h.mode == "before":
                    inserts.append(Ins(r[0], h.text, f"hint:{fs.path}", 2))
                elif h.mode == "past":
                    # %past N `anchor`: insert right after the last token of the anchor
                    inserts.append(Ins(r[1], h.text, f"hint:{fs.path}", 2))
                elif h.mode == "wrap":
                    pre, _, post = h.text.partition("\n---\n")
                    inserts.append(Ins(r[0], pre, f"hint:{fs.path}", 3))
                    inserts.append(Ins(r[1], post, f"hint:{fs.path}", -1))
                else:
                    e = self.stmt_end(v, r[0], body_b)
                    inserts.append(Ins(e, h.text, f"hint:{fs.path}", 2))
            text_out = self.render(fi, a, b, edits, inserts)
            # R21 (guard, no rewrite): a capitalised bare identifier in pattern position (`NAME =>`, `NAME |`, `NAME if`) names a
            # constant / unit variant in the source; if its definition is not part of the assembled unit the same text would be
            # a catch-all *binding* here and the extracted function would differ from the one that runs.  Checked in assemble().
            for k in range(body_a, body_b):
                if v.is_id(k) and v.text(k)[:1].isupper() and not (v.is_p(k - 1, "::") or v.is_p(k - 1, ".")) \
                        and (v.is_p(k + 1, "=>") or v.is_p(k + 1, "|") or v.is_id(k + 1, "if")) \
                        and not any(ra <= k < rb for ra, rb in removed):
                    self.pattern_names.setdefault(v.text(k), set()).add(fs.path)
        elif mode == "canary":
            text_out = self.render(fi, it.head, pc + 1, [e for e in edits if e.a >= it.head and e.b <= pc + 1], [])
            if where is not None:
                text_out += " " + self.render(fi, where, body_open, [e for e in edits if e.a >= where and e.b <= body_open], [])
            text_out += f" /*@L canary*/ {spec} {{ assert(false); }} /*@E*/"
        else:  # extern
            text_out = self.render(fi, a, body_open, [e for e in edits if e.b <= body_open], inserts)
            text_out += " /*@L extern-body*/ { unimplemented!() } /*@E*/"
        first = self.cur_line()
        self.emit("\n" + self.pubify(text_out) + "\n")
        last = self.cur_line()
        self.funcs.setdefault(emit_name, []).append({"path": fs.path, "mode": mode, "first": first, "last": last, "props": fs.props,
                                                     "src_line": v.t[it.kw].line, "file": fi.v.path.replace(REPO + "/", ""),
                                                     "bodyless": not it.body})
        if mode == "home" and not it.body:
            # a trait method declaration: the contract binds every implementation verified in this
            # unit; implementations that are not extracted (e.g. ChiaDialect) are ASSUMED to meet it
            self.assumptions.append(f"trait contract on {fs.path}: implementors outside the unit are assumed to satisfy it")
        if mode == "extern":
            self.assumptions.append(f"assumed contract on {fs.path} (external_body in unit {self.unit.name}; proved in home unit {fs.unit})")
        return fi, it

    def emit_bitflags(self, mod):
        """R7: the bitflags!-generated flag type is replaced by a stub struct over the same integer
        type; the flag constants are read from the macro invocation on every run."""
        if mod not in self.src.files:
            raise ExtractError(f"%bitflags: no %file for module {mod}")
        fi = self.src.files[mod]
        v = fi.v
        its = [it for it in fi.items if it.kind == "macro" and it.name == "bitflags"]
        if len(its) != 1:
            raise ExtractError(f"lost anchor: {len(its)} bitflags! invocations in module {mod}")
        it = its[0]
        a, b = it.body
        k = a + 1
        while v.is_p(k, "#"):
            k = v.match[k + 1] + 1
        if v.is_id(k, "pub"):
            k += 1
        if not v.is_id(k, "struct"):
            raise ExtractError("bitflags!: unexpected shape")
        name = v.text(k + 1)
        ty = v.text(k + 3)
        ob = k + 4
        cb = v.match[ob]
        consts = []
        q = ob + 1
        while q < cb:
            while v.is_p(q, "#"):
                q = v.match[q + 1] + 1
            if v.is_id(q, "const"):
                cname = v.text(q + 1)
                j = q + 3
                toks = []
                while not v.is_p(j, ";"):
                    toks.append(v.t[j])
                    j += 1
                val = self.eval_int(toks)
                consts.append((cname, val))
                q = j + 1
            else:
                q += 1
        lines = [f"/*@L bitflags-stub*/", f"// R7: stub for bitflags! struct {name}: {ty}; constants read from {fi.v.path.replace(REPO + '/', '')}",
                 f"#[derive(Clone, Copy, PartialEq, Eq, Structural)]", f"struct {name} {{ bits: {ty} }}", f"impl {name} {{"]
        for cname, val in consts:
            lines.append(f"    const {cname}: {name} = {name} {{ bits: {hex(val)} }};")
        lines.append(f"""    spec fn has(self, o: {name}) -> bool {{ self.bits & o.bits == o.bits }}
    const fn contains(&self, o: {name}) -> (r: bool) ensures r == self.has(o) {{ self.bits & o.bits == o.bits }}
    const fn empty() -> (r: {name}) ensures r.bits == 0 {{ {name} {{ bits: 0 }} }}
    const fn bits(&self) -> (r: {ty}) ensures r == self.bits {{ self.bits }}
    spec fn spec_union(self, o: {name}) -> {name} {{ {name} {{ bits: self.bits | o.bits }} }}
    #[verifier::when_used_as_spec(spec_union)]
    const fn union(self, o: {name}) -> (r: {name}) ensures r == self.spec_union(o), r.bits == self.bits | o.bits {{ {name} {{ bits: self.bits | o.bits }} }}
    const fn intersects(&self, o: {name}) -> (r: bool) ensures r == (self.bits & o.bits != 0) {{ self.bits & o.bits != 0 }}
    fn remove(&mut self, o: {name}) ensures final(self).bits == old(self).bits & !o.bits {{ self.bits = self.bits & !o.bits; }}
    fn insert(&mut self, o: {name}) ensures final(self).bits == old(self).bits | o.bits {{ self.bits = self.bits | o.bits; }}
}}
impl vstd::std_specs::ops::BitOrSpecImpl<{name}> for {name} {{
    closed spec fn obeys_bitor_spec() -> bool {{ true }}
    closed spec fn bitor_req(self, o: {name}) -> bool {{ true }}
    closed spec fn bitor_spec(self, o: {name}) -> {name} {{ {name} {{ bits: self.bits | o.bits }} }}
}}
impl core::ops::BitOr for {name} {{
    type Output = {name};
    fn bitor(self, o: {name}) -> (r: {name}) {{ {name} {{ bits: self.bits | o.bits }} }}
}}""")
        lines.append("/*@E*/")
        self.emit("\n" + "\n".join(lines) + "\n")
        self.flag_consts = dict(consts)

    def impl_header(self, fi, impl_it):
        v = fi.v
        edits = self.rules_body(fi, impl_it.kw, impl_it.body[0])
        return self.pubify(self.render(fi, impl_it.kw, impl_it.body[0], edits, []))

    def assemble(self):
        u = self.unit
        self.emit("#![allow(unused_imports, unused_variables, unused_mut, dead_code, unused_assignments, unreachable_code, non_snake_case, unused_parens, unused_braces, non_camel_case_types, unreachable_patterns)]\n")
        self.emit("use vstd::prelude::*;\n")
        self.emit("verus! {\n")
        for p in u.preludes:
            with open(os.path.join(VERIF, "prelude", p)) as f:
                # everything lives in one private module: visibility keywords are meaningless and
                # would only trigger Verus's cross-module well-formedness checks
                ptxt = strip_vis(f.read())
                self.emit(f"\n// ===== prelude {p} =====\n" + ptxt + "\n")
        self.emit("\n// ===== extracted from /repo working tree =====\n")
        open_impl = None
        # R22: a top-level integer constant of the same source file that a function under contract names and the unit does not
        # define is extracted with it (mechanically, like a %item), so that a literal given a name keeps its meaning.  Done
        # before any impl block is opened (a trait impl cannot be split in two).
        auto_done = set()
        for e in u.entries:
            if e[0] != "fn":
                continue
            try:
                fi, it = self.find_fn(e[1].path)
            except ExtractError:
                continue
            for cpath in self.auto_consts(fi, it):
                if cpath in auto_done:
                    continue
                auto_done.add(cpath)
                self.emit_item(cpath, [])
                self.log.append({"rule": "R22", "file": fi.v.path.replace(REPO + "/", ""), "line": 0,
                                 "note": f"constant {cpath} extracted because {e[1].path} names it and the unit does not list it"})

        def close_impl():
            nonlocal open_impl
            if open_impl is not None:
                self.emit("/*@L impl*/ } /*@E*/\n")
                open_impl = None

        def ensure_impl(fi, it):
            nonlocal open_impl
            par = it.parent
            if par is None or par.kind not in ("impl", "trait"):
                close_impl()
                return
            if open_impl is not par:
                close_impl()
                self.emit("\n" + self.impl_header(fi, par) + " /*@L impl*/ { /*@E*/\n")
                open_impl = par

        for e in u.entries:
            if e[0] == "item":
                fi, cands = self.src.find(e[1])
                if cands and cands[0].parent is not None and cands[0].parent.kind == "impl":
                    ensure_impl(fi, cands[0])
                else:
                    close_impl()
                self.emit_item(e[1], e[2])
            elif e[0] == "expect":
                fi, cands = self.src.find(e[1])
                cands = [c for c in (cands or []) if c.kind != "impl"]
                if not cands:
                    raise ExtractError(f"lost anchor: item {e[1]} not found")
                it = cands[0]
                want = [t.text for t in tokenize(e[2]) if t.kind not in (WS, COMMENT)]
                have = [fi.v.text(q) for q in range(it.start, it.end) if fi.v.t[q].kind not in (WS, COMMENT)][:len(want)]
                # attributes / doc comments before the item are not part of the expectation
                toks = [fi.v.text(q) for q in range(it.kw if hasattr(it, "kw") else it.start, it.end) if fi.v.t[q].kind not in (WS, COMMENT)]
                if have != want and toks[:len(want)] != want and ["pub"] + toks[:len(want) - 1] != want:
                    raise ExtractError(f"item {e[1]} no longer starts with `{e[2]}` (a stub of this unit relies on it)")
                self.log.append({"rule": "R18", "file": "", "line": 0, "note": f"{e[1]} expected to start with `{e[2]}`: holds"})
            elif e[0] == "sameitem":
                self.check_same_item(e[1], e[2])
            elif e[0] == "lemma":
                close_impl()
                lm = e[1]
                txt = "/*@L lemma*/ " + strip_vis(lm["sig"].rstrip()) + " /*@E*/ /*@L spec:lemma:" + lm["name"] + ":home*/" \
                    + self.spec_text(None, lm["spec"], lm["name"], "home") + "/*@E*/ /*@L lemma*/\n" + lm["body"] + "/*@E*/\n"
                self.emit("\n\n")
                first = self.cur_line()
                self.emit(txt)
                last = self.cur_line()
                self.funcs.setdefault(lm["name"], []).append({"path": "lemma:" + lm["name"], "mode": "home", "first": first, "last": last,
                                                               "props": lm["props"], "src_line": lm["line"],
                                                               "file": os.path.relpath(lm["src"], VERIF), "bodyless": False, "lemma": True})
            elif e[0] == "raw":
                close_impl()
                self.emit("\n/*@L raw*/\n" + strip_vis(e[1]) + "\n/*@E*/\n")
            elif e[0] == "fn":
                fs = e[1]
                if fs.optional:
                    try:
                        self.find_fn(fs.path)
                    except ExtractError:
                        self.log.append({"rule": "R1", "file": "", "line": 0, "note": f"{fs.path} does not exist in this build (cfg): contract skipped"})
                        continue
                fi, it = self.find_fn(fs.path)
                ensure_impl(fi, it)
                self.emit_fn(fs, "home")
                if fs.strict is not None and self.twins:
                    self.emit_fn(fs, "strict")
                has_req = any(c[0] == "requires" for c in VS.split_clauses(fs.spec))
                in_trait_impl = it.parent is not None and ((it.parent.kind == "impl" and it.parent.impl_trait is not None) or it.parent.kind == "trait")
                if self.canaries and has_req and not fs.nocanary and not in_trait_impl:
                    self.emit_fn(fs, "canary")
            elif e[0] == "bitflags":
                close_impl()
                self.emit_bitflags(e[1])
            elif e[0] == "implraw":
                fi, cands = self.src.find(e[1])
                cands = [c for c in cands if c.kind in ("impl", "trait")]
                if len(cands) != 1:
                    raise ExtractError(f"lost anchor: %implraw {e[1]}: {len(cands)} impl blocks match")
                if open_impl is not cands[0]:
                    close_impl()
                    self.emit("\n" + self.impl_header(fi, cands[0]) + " /*@L impl*/ { /*@E*/\n")
                    open_impl = cands[0]
                self.emit("\n/*@L raw*/\n" + strip_vis(e[2]) + "\n/*@E*/\n")
            elif e[0] == "extern":
                fs = self.fnspecs.get(e[1])
                if fs is None:
                    raise ExtractError(f"%extern {e[1]}: no contract found in any unit")
                fi, it = self.find_fn(fs.path)
                ensure_impl(fi, it)
                self.emit_fn(fs, "extern")
        close_impl()
        self.emit("\n/*@L end*/ } /*@E*/ // verus!\n/*@L end*/ fn main() {} /*@E*/\n")
        text = "".join(self.out)
        for name, fns in sorted(self.pattern_names.items()):
            if name in ("None", "Self"):
                continue
            if re.search(r"\b(const|static|struct|enum|type)\s+" + name + r"\b", text) or re.search(r"\buse\s[^;]*\b" + name + r"\b", text):
                continue
            raise ExtractError(f"lost anchor: {', '.join(sorted(fns))} matches on `{name}`, whose definition is not part of unit {u.name} "
                               f"(as a bare pattern it would bind instead of compare): add it to the unit with %item")
        self.log.append({"rule": "R21", "file": "", "line": 0, "note": f"{len(self.pattern_names)} capitalised name(s) in pattern position all resolve to definitions inside the unit"})
        return text

    def auto_consts(self, fi, it):
        """R22: paths of top-level constants of the function's own file that it names and that nothing in the unit defines"""
        v = fi.v
        names = []
        for k in range(it.start, it.end):
            if v.is_id(k) and re.fullmatch(r"[A-Z][A-Z0-9_]+", v.text(k)) and not v.is_p(k - 1, "::") and not v.is_p(k - 1, ".") \
                    and v.text(k) not in names:
                names.append(v.text(k))
        if not names:
            return []
        sofar = "".join(self.out)
        todo = []
        for n in names:
            pat = r"\b(const|static)\s+" + n + r"\b"
            if re.search(pat, sofar):
                continue
            if any((e[0] == "item" and e[1].split("::")[-1] == n) or (e[0] in ("raw", "implraw") and re.search(pat, e[-1])) for e in self.unit.entries):
                continue
            path = f"{fi.mod}::{n}"
            cands = [c for c in fi.lookup(path) if c.kind == "const" and self.src.item_cfg_ok(fi, c)]
            if len(cands) == 1:
                # integer constants only (`const N: <int type> = ...;`): tables and strings keep needing an explicit %item
                c = cands[0]
                eq = next((q for q in range(c.kw, c.end) if v.is_p(q, "=")), None)
                if eq is not None and v.is_p(eq - 2, ":") and (v.text(eq - 1) in INT_TYPES or v.text(eq - 1) == "Cost"):
                    todo.append(path)
        return todo

    # ------------------------------------------------------------------ fidelity
    def fidelity_check(self, text):
        """strip marked additions from the output and compare token-by-token with source+edits"""
        # 1. expected token stream
        expected = []
        for (fi, a, b, used) in self.fidelity:
            by = {e.a: e for e in used if e.a != e.b}
            pure = {}
            for e in used:
                if e.a == e.b:
                    pure.setdefault(e.a, []).append(e)
            k = a
            while k <= b:
                for e in pure.get(k, []):
                    expected += unmarked_tokens(e.text)
                if k == b:
                    break
                if k in by:
                    expected += unmarked_tokens(by[k].text)
                    k = by[k].b
                else:
                    expected.append(fi.v.t[k].text)
                    k += 1
        # 2. actual: only the part after the extraction banner, minus marked regions, minus raw blocks
        marker = "// ===== extracted from /repo working tree ====="
        body = text[text.index(marker) + len(marker):]
        toks = tokenize(body)
        actual = []
        depth = 0
        for t in toks:
            if t.kind == COMMENT and t.text.startswith("/*@L"):
                depth += 1
                continue
            if t.kind == COMMENT and t.text.startswith("/*@E"):
                depth -= 1
                continue
            if depth > 0 or t.kind in (WS, COMMENT):
                continue
            actual.append(t.text)
        return expected, actual


def unmarked_tokens(text):
    """significant tokens of `text` outside /*@L*/ ... /*@E*/ regions"""
    out = []
    depth = 0
    for t in tokenize(text):
        if t.kind == COMMENT and t.text.startswith("/*@L"):
            depth += 1
        elif t.kind == COMMENT and t.text.startswith("/*@E"):
            depth -= 1
        elif depth == 0 and t.kind not in (WS, COMMENT):
            out.append(t.text)
    return out


def strip_vis(text):
    """prelude / raw text: everything lives in one private module, so visibility keywords (and the
    open/closed markers that only make sense on pub functions) are removed"""
    # (`pub assume_specification` must stay pub: Verus requires it to be as visible as the std function it describes)
    return re.sub(r"\bpub\s+(?!assume_specification\b)((open|closed)\s+(?=spec\b))?", "", text)


def normalise_pub(tokens):
    """pubify() is applied on text; mirror it on expected tokens: pub ( crate ) -> pub"""
    out = []
    i = 0
    while i < len(tokens):
        if tokens[i] == "pub" and i + 3 < len(tokens) and tokens[i + 1] == "(" and tokens[i + 2] in ("crate", "super") and tokens[i + 3] == ")":
            out.append("pub")
            i += 4
        else:
            out.append(tokens[i])
            i += 1
    return out


def build_unit(unit_name, outdir, twins=True, canaries=True):
    units, fnspecs = VS.load_all(os.path.join(VERIF, "contracts"))
    if unit_name not in units:
        raise ExtractError(f"no such unit {unit_name}")
    asm = Assembler(units[unit_name], fnspecs, twins, canaries)
    text = asm.assemble()
    # raw blocks and preludes are wrapped so the fidelity check can skip them
    os.makedirs(outdir, exist_ok=True)
    path = os.path.join(outdir, f"{unit_name}.rs")
    with open(path, "w") as f:
        f.write(text)
    return asm, text, path


if __name__ == "__main__":
    try:
        asm, text, path = build_unit(sys.argv[1], sys.argv[2] if len(sys.argv) > 2 else os.path.join(VERIF, ".cache", "units"))
        print(path, len(text.split("\n")), "lines;", len(asm.log), "rewrites")
        for l in asm.lost:
            print("LOST ANCHOR:", l["fn"], l["what"])
    except (ExtractError, VS.SpecError) as e:
        print("EXTRACT-ERROR:", e)
        sys.exit(2)
