#!/usr/bin/env python3
"""Generate /verif/MANIFEST.json from the table below (kept here so the manifest is never edited by hand)."""
import json
import os

VERIF = os.path.dirname(os.path.dirname(os.path.abspath(__file__)))

TB_COMMON = ("Trusted: Verus 0.2026.09.13 + Z3; the extractor (token scanner, rewrite rules R1-R12, per-run fidelity check); "
             "assumed contracts on dependencies and intrinsics listed in contracts/ASSUMPTIONS.tsv; usize = 64 bit; no model of "
             "memory exhaustion; termination of exec loops not proved. ")

CLAIMED = {
    "C12": dict(
        text="Proof (Verus, per public mutator of the real Allocator): counts() moves exactly as the statement's reference model for "
             "every operation and every state satisfying the representation invariant; since each operation preserves the invariant, "
             "every finite history does. Known finding F1 (new_substr on an inline parent) is carved out by a relaxed clause and kept "
             "visible by a strict twin that must fail.",
        note=TB_COMMON + "History composition is the standard data-structure-invariant argument (not mechanised as a separate theorem).",
        tech="contract-based deductive verification (Verus) of extracted real functions; data-structure invariant + whole-view postconditions",
        ref="4/C12"),
    "C13": dict(
        text="Proof (Verus): every mutator preserves inv() (atom/pair caps) and capped() (heap cap) and fails exactly when the cap would be "
             "exceeded, leaving every field's abstract value unchanged on failure. Same carve-out F1 as C12.",
        note=TB_COMMON + "Precondition recorded: nodes passed in are valid nodes of this allocator.",
        tech="contract-based deductive verification (Verus); exact failure conditions as iff-postconditions",
        ref="4/C13"),
    "C14": dict(
        text="Proof (Verus): frame clauses (every valid node keeps its tree across every mutator, restores included for nodes older than "
             "the checkpoint), fits_in_small_atom == the property-level definition of the small-integer view, readers are functions of "
             "bytes(n) only.",
        note=TB_COMMON,
        tech="contract-based deductive verification (Verus); abstract tree view + frame postconditions",
        ref="4/C14"),
    "C25": dict(
        text="Proof (Verus) for the functions under contract: every assert!/debug_assert!/unwrap/index/cast/arithmetic site in the verified "
             "text is a discharged obligation; functions not under contract are listed in evidence and are outside the claim.",
        note=TB_COMMON + "Claim covers only the functions listed in evidence.functions_under_contract.",
        tech="contract-based deductive verification (Verus); built-in panic-freedom obligations",
        ref="4/C25"),
}

NOT_APPLICABLE = {
    "C01": "the oracle is the Python clvm package; a contract cannot refer to it and a hand transcription would be a model of the oracle",
    "C17": "back-reference search runs on salted HashMaps via entry(), BitVec, function-pointer caches and sha256 keys: outside Verus's fragment and CBMC's reach; determinism is relational",
    "C24": "intern_tree_limited is three HashMaps driven through the Entry API; no supported fragment, and Kani cannot build an Allocator",
    "C26": "Python/pyo3 bindings; no deductive verifier for Python is installed",
    "C27": "Python/pyo3 object protocol and identity-keyed memo; no deductive verifier for Python is installed",
    "C28": "pure-Python helpers; no deductive verifier for Python is installed",
    "C30": "function-pointer dispatch table built from a caller-supplied name map that is not in the repository; table equality is not a contract",
    "C32": "the oracle is independent crypto libraries; the implementations are external C/assembly/Rust crates no verifier here can take",
}

PENDING_REASON = "not yet under contract in this revision of /verif (planned, see DESIGN.md section 4); not claimed until its check exists"


def main():
    props = [json.loads(l)["id"] for l in open(os.path.join(VERIF, "properties.jsonl"))]
    checks = []
    na = []
    for p in props:
        if p in CLAIMED:
            c = CLAIMED[p]
            checks.append({
                "property_id": p,
                "quick_cmd": f"./check {p} --tier quick",
                "thorough_cmd": f"./check {p} --tier thorough",
                "evidence_file": f"/verif/evidence/{p}.json",
                "replay_cmd_template": f"./check {p} --replay {{path}}",
                "engine": "verus-contracts",
                "level_claimed": {"category": c.get("cat", "proof"), "text": c["text"], "design_ref": c["ref"]},
                "level_note": c["note"],
                "technique": c["tech"],
            })
        else:
            na.append({"property_id": p, "reason": NOT_APPLICABLE.get(p, PENDING_REASON)})
    m = {
        "version": 1,
        "setup_cmd": "./setup.sh",
        "hooks": {
            "guard": "chia_network_clvm_rs_verif",
            "enable": "RUSTFLAGS='--cfg chia_network_clvm_rs_verif' (no hook is currently needed: Verus units are extracted from source text, Kani reaches public items)",
            "baseline_off_cmd": "cd /repo && cargo test --workspace --no-fail-fast --offline",
            "source_commits": [],
            "add_only": True,
        },
        "engines": [
            {"name": "verus-contracts", "path": "/verif/tools/runner.py", "serves_properties": sorted(CLAIMED),
             "kind_free_text": "per run: extract the real functions from /repo's working tree (tools/extract.py), splice contracts from contracts/*.vspec, verify each unit with single-file Verus, map failed obligations to labelled clauses, replay against the compiled crate (replay/)"},
        ],
        "checks": checks,
        "not_applicable": na,
        "notes": "exit 0 pass (KNOWN-FINDING lines for listed findings), exit 1 VIOLATION, exit 2 undecided (lost anchor, unsupported construct, rlimit, vacuity). See DESIGN.md.",
    }
    with open(os.path.join(VERIF, "MANIFEST.json"), "w") as f:
        json.dump(m, f, indent=1)
    print(f"MANIFEST.json: {len(checks)} checks, {len(na)} not_applicable")


if __name__ == "__main__":
    main()
