#!/usr/bin/env python3
"""Generate /verif/MANIFEST.json from the table below (kept here so the manifest is never edited by hand)."""
import json
import os

VERIF = os.path.dirname(os.path.dirname(os.path.abspath(__file__)))

TB_COMMON = ("Trusted: Verus 0.2026.09.13 + Z3; the extractor (token scanner, rewrite rules R1-R16, per-run fidelity check); "
             "assumed contracts on dependencies and intrinsics listed in contracts/ASSUMPTIONS.tsv; usize = 64 bit; no model of "
             "memory exhaustion; termination of exec loops not proved. ")

CLAIMED = {
    "C12": dict(
        text="Proof (Verus, per public mutator of the real Allocator): counts() moves exactly as the statement's reference model for "
             "every operation and every state satisfying the representation invariant; since each operation preserves the invariant, "
             "every finite history does. Known finding F1 (new_substr on an inline parent charges the slice to the heap although substrings "
             "are documented to share their parent's bytes) is carved out by a relaxed clause and kept visible by a strict twin that must fail.",
        note=TB_COMMON + "History composition is the standard data-structure-invariant argument (not mechanised as a separate theorem).",
        tech="contract-based deductive verification (Verus) of extracted real functions; data-structure invariant + whole-view postconditions",
        ref="4/C12"),
    "C13": dict(
        text="Proof (Verus): every mutator preserves inv() (atom/pair caps) and capped() (heap cap) and fails exactly when the cap would be "
             "exceeded, leaving every field's abstract value unchanged on failure; the BLS constructors and caches (new_g1/g2, validate_g1/g2) "
             "included. The missing limit check of new_substr on an inline parent (formerly part of F1; it also made ENABLE_GC observable, "
             "C04) was repaired by a fix: commit, so the heap-cap clause holds for every mutator without a carve-out.",
        note=TB_COMMON + "Precondition recorded: nodes passed in are valid nodes of this allocator.",
        tech="contract-based deductive verification (Verus); exact failure conditions as iff-postconditions",
        ref="4/C13"),
    "C14": dict(
        text="Proof (Verus): frame clauses (every valid node keeps its tree across every mutator, restores included for nodes older than "
             "the checkpoint), fits_in_small_atom == the property-level definition of the small-integer view, readers are functions of "
             "bytes(n) only.",
        note=TB_COMMON,
        tech="contract-based deductive verification (Verus); abstract tree view + frame postconditions",
        ref="4/C14"),
    "C25": dict(
        text="Proof (Verus) for the functions under contract: every assert!/debug_assert!/unwrap/index/cast/arithmetic site in the verified "
             "text is a discharged obligation. All 48 operator functions ChiaDialect dispatches to are under contract and each is PROVED to "
             "meet the generic operator contract the interpreter loop relies on (allocator only grows, valid result, bounded cost, no "
             "InternalError, heap cap kept), so run_program's totality no longer rests on assumed operator behaviour (budgets <= 2^62). "
             "Functions not under contract (serializers with back-references, interning, the Python/WASM bindings) are listed in evidence and "
             "are outside the claim.",
        note=TB_COMMON + "Claim covers only the functions listed in evidence.functions_under_contract.",
        tech="contract-based deductive verification (Verus); built-in panic-freedom obligations",
        ref="4/C25"),
}

CLAIMED.update({
    "C09": dict(
        text="Proof (Verus) of op_unknown against the opcode cost rule written from the statement: success iff (opcode well formed, "
             "argument atoms, base <= budget, (multiplier+1)*base <= 2^32-1), cost == (multiplier+1)*base with the add-/multiply-/"
             "concat-like base formulas over the real constants (pinned to their documented values), nil result, allocator unchanged; "
             "for NEW_COST_MODEL unconditionally, for the pre-hard-fork model outside known finding F2 (unchecked arithmetic), which a "
             "strict twin keeps visible.",
        note=TB_COMMON + "Strict mode (NO_UNKNOWN_OPS) routing in ChiaDialect::op is not yet under contract; Atom::as_ref assumed.",
        tech="contract-based deductive verification (Verus): loop invariants equating the running cost with a recursive spec function",
        ref="4/C09"),
    "C15": dict(
        text="Proof: (Verus) write_atom / length-prefix writer / node_to_stream / node_to_bytes(_limit) produce exactly ser(tree) for the "
             "recursive specification ser; (Kani, complete over all inputs) the prefix writer equals the format's prefix for every size, "
             "decode_size_with_offset inverts it, and is_canonical_atom accepts exactly minimal prefixes. Tree-level decoders "
             "(node_from_stream, serialized_length_*) are not yet under contract: the round trip is proved at atom/prefix level and on the "
             "encoder side only.",
        note=TB_COMMON + "io::Write modelled as a budgeted all-or-nothing sink (assumption R10); Kani/CBMC for the byte-level harnesses, "
             "built with the cfg-guarded hooks.",
        tech="contract-based deductive verification (Verus) + Kani function-level proofs with fully symbolic inputs (loop bounds <= 8, unwinding assertions)",
        ref="4/C15"),
    "C16": dict(
        text="Partial: (Kani, complete over all inputs) decode_size_with_offset and is_canonical_atom are total (no panic) on every prefix "
             "and agree with the format definition. node_from_bytes / parse_triples / tree_hash_from_stream agreement is NOT yet under contract.",
        note="Kani 0.68 / CBMC 6.11; claim limited to the two byte-level functions shared by all classic decoders.",
        tech="Kani proofs over fully symbolic prefixes (complete: loop bounds are the prefix length)",
        ref="4/C16"),
    "C21": dict(
        text="Proof (Kani, complete): every 56-bit value encodes to the shortest varint and decodes back (strict and lenient); every byte "
             "string decodes to at most one value consuming exactly the declared length; strict accepts exactly the shortest encodings. "
             "Loops are bounded by the constant 8, inputs fully symbolic, unwinding assertions on.",
        note="Kani 0.68 / CBMC 6.11 / kissat; the harness text (spec_size and the value denoted are written from the statement).",
        tech="Kani harnesses over full-domain symbolic inputs on the compiled real crate (complete, not bounded)",
        ref="4/C21"),
    "C29": dict(
        text="Proof (Verus): node_to_bytes_limit returns exactly ser(tree) when |ser(tree)| <= L and Err(OutOfMemory) otherwise, through "
             "contracts on From<io::Error>, LimitedWriter::write (repo code, proved a budgeted sink), the prefix/atom writers and "
             "node_to_stream (stack invariant). node_to_bytes_backrefs_limit: the limit wrapper is proved against an ASSUMED contract of "
             "node_to_stream_backrefs (search structures out of reach); a BOUNDED stand-in runs on every check for that function (60 random trees x every limit around every byte position: result is the unlimited serialization when it fits and OutOfMemory otherwise; labelled bounded, never counted as proved). The original defect is repaired by a fix: commit.",
        note=TB_COMMON + "io::Write as budgeted sink (R10); write_all assumed to follow write for such sinks; ? converts errors with From::from (axiom).",
        tech="contract-based deductive verification (Verus) with a trait-level writer abstraction",
        ref="4/C29"),
})

from claims_more import MORE
CLAIMED.update(MORE)
from claims_more2 import MORE2
CLAIMED.update(MORE2)
from claims_more3 import MORE3
CLAIMED.update(MORE3)

NOT_APPLICABLE = {
    "C01": "the oracle is the Python clvm package; a contract cannot refer to it and a hand transcription would be a model of the oracle",
    "C17": "back-reference search runs on salted HashMaps via entry(), BitVec, function-pointer caches and sha256 keys: outside Verus's fragment and CBMC's reach; determinism is relational",
    "C18": "both back-reference decoders drive an `impl FnMut` callback, and the current one resolves paths with `iter_mut().take(n)` over a slice of tuples whose second field it mutates through the iterator (lazy list cache): closures and IterMut are outside Verus's fragment, Kani cannot build an Allocator; the legacy decoder alone would not decide an agreement property",
    "C19": "the incremental serializer is TreeCache + ReadCacheLookup: salted HashMaps driven through the Entry API, BitVec path sets and undo logs over them; no supported fragment, and salt-independence is a relation between runs with different RandomStates",
    "C23": "compares the operator's cost with the cost of EVALUATING a particular ChiaLisp program on the same tree: that is a statement about interpreter traces of unbounded length (an induction over the whole run loop for a fixed program), not a per-function contract; the operator side (exact cost over the expanded tree) is proved under C10/C22, the program side would have to be a hand-written cost model of the program, which is a model and not the code",
    "C24": "intern_tree_limited is three HashMaps driven through the Entry API; no supported fragment, and Kani cannot build an Allocator",
    "C26": "Python/pyo3 bindings; no deductive verifier for Python is installed",
    "C27": "Python/pyo3 object protocol and identity-keyed memo; no deductive verifier for Python is installed",
    "C28": "pure-Python helpers; no deductive verifier for Python is installed",
    "C30": "function-pointer dispatch table built from a caller-supplied name map that is not in the repository; table equality is not a contract",
    "C32": "the oracle is independent crypto libraries; the implementations are external C/assembly/Rust crates no verifier here can take",
}

PENDING_REASON = "not yet under contract in this revision of /verif (planned, see DESIGN.md section 4); not claimed until its check exists"


def main():
    props = [json.loads(l)["id"] for l in open(os.path.join(VERIF, "properties.jsonl"))]
    checks = []
    na = []
    for p in props:
        if p in CLAIMED:
            c = CLAIMED[p]
            checks.append({
                "property_id": p,
                "quick_cmd": f"./check {p} --tier quick",
                "thorough_cmd": f"./check {p} --tier thorough",
                "evidence_file": f"/verif/evidence/{p}.json",
                "replay_cmd_template": f"./check {p} --replay {{path}}",
                "engine": "kani-harnesses" if p in ("C21",) else "verus-contracts",
                "level_claimed": {"category": c.get("cat", "proof"), "text": c["text"], "design_ref": c["ref"]},
                "level_note": c["note"],
                "technique": c["tech"],
            })
        else:
            na.append({"property_id": p, "reason": NOT_APPLICABLE.get(p, PENDING_REASON)})
    m = {
        "version": 1,
        "setup_cmd": "./setup.sh",
        "hooks": {
            "guard": "chia_network_clvm_rs_verif",
            "enable": "RUSTFLAGS='--cfg chia_network_clvm_rs_verif' (set by tools/kani_runner.py for the Kani harness crate; Verus units are extracted from source text and need no hook)",
            "baseline_off_cmd": "cd /repo && cargo test --workspace --no-fail-fast --offline",
            "source_commits": ["c190d6e verif hooks: cfg(chia_network_clvm_rs_verif)-guarded re-exports of private byte-level serde helpers"],
            "add_only": True,
        },
        "engines": [
            {"name": "kani-harnesses", "path": "/verif/tools/kani_runner.py", "serves_properties": ["C15", "C16", "C20", "C21"],
             "kind_free_text": "cargo kani on /verif/kani (path dependency on /repo, hooks cfg on): fully symbolic inputs, constant loop bounds, unwinding assertions"},
            {"name": "verus-contracts", "path": "/verif/tools/runner.py", "serves_properties": sorted(CLAIMED),
             "kind_free_text": "per run: extract the real functions from /repo's working tree (tools/extract.py), splice contracts from contracts/*.vspec, verify each unit with single-file Verus, map failed obligations to labelled clauses, replay against the compiled crate (replay/); bounded stand-ins (labelled bounded, never counted as proved) for the few functions no contract reaches (C15 C16 C20 C22 C29)"},
        ],
        "checks": checks,
        "not_applicable": na,
        "notes": "exit 0 pass (KNOWN-FINDING lines for listed findings), exit 1 VIOLATION, exit 2 undecided (lost anchor, unsupported construct, rlimit, vacuity). Repairs of genuine defects of /repo (fix: commits cd49a81, aee06f2, 1e76c28) and the known findings F1-F3 are listed in known_findings.json. See DESIGN.md (section 11.21 for the state at the end of the build).",
    }
    with open(os.path.join(VERIF, "MANIFEST.json"), "w") as f:
        json.dump(m, f, indent=1)
    print(f"MANIFEST.json: {len(checks)} checks, {len(na)} not_applicable")


if __name__ == "__main__":
    main()
