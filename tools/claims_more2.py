"""Claims revised / added after the decoder (DESER), dispatch (DIALECT) and tree-hash (TREEHASH) units."""
from claims_more import TB

MORE2 = {
    "C15": dict(
        text="Proof (Verus + Kani). Encoder: write_atom / length-prefix writer / node_to_stream / node_to_bytes(_limit) produce exactly ser(tree) "
             "for the recursive specification ser. Decoder: parse_atom_ptr, parse_atom, node_from_stream, node_from_bytes compute exactly the "
             "grammar dec_tree (tree and consumed length). Round trip: lemma dec_tree(ser(t) ++ rest, 0) == (t, |ser(t)|) for every tree with "
             "atoms < 2^34 bytes, including the prefix lemma for every prefix length. is_canonical_atom, is_canonical_serialization and "
             "serialized_length_from_bytes_trusted are proved against the grammar (canonical tokens; consumed length). (Kani, complete over all "
             "inputs) the prefix writer equals the format's prefix for every size, decode_size_with_offset inverts it, is_canonical_atom accepts "
             "exactly minimal prefixes. Canonical clause: lemma_c15_canonical_iff_reserializes shows that a decodable input is (whole input one tree of "
             "canonical tokens) exactly when it equals ser(decoded tree), i.e. re-serializing reproduces it byte for byte. The untrusted probe "
             "serialized_length_from_bytes returns the consumed length for every decodable input of at most 20,000,000 bytes (it allocates "
             "scratch pairs: observation O2). serialized_length_atom, which the object-cache length adds up, is proved equal to |ser_atom|; the "
             "combination through the cache (a HashMap) is NOT under contract: for it the check runs a BOUNDED stand-in on every run (2000 random "
             "DAGs, object-cache length against node_to_bytes; labelled bounded, never counted as proved).",
        note=TB + "io::Write modelled as a budgeted all-or-nothing sink, Cursor<&[u8]>/Read as a byte source with a position (std documentation); "
             "decode_size_with_offset is ASSUMED in Verus with exactly the statement Kani proves on the compiled function. Observation O1: the two "
             "token counters in tools.rs are i32 and overflow after 2^31-2 consecutive cons markers, so those contracts require inputs < 2^31-1 bytes.",
        tech="contract-based deductive verification (Verus): encoder and decoder against one pair of recursive specifications, inverse lemma; Kani for the byte-level prefix codec",
        ref="4/C15, 11.1"),
    "C16": dict(
        text="Proof (Verus + Kani) for node_from_bytes and tree_hash_from_stream: both run the same two-stack machine, proved (loop invariant over "
             "an abstract machine defined through the grammar, stack discipline, termination) to succeed exactly when dec_tree succeeds "
             "(tree_hash_from_stream: iff; node_from_bytes: iff up to allocator limits), to consume the same number of bytes and to describe the "
             "same tree (the decoded tree / its tree hash); every index, slice, unwrap and cast in them is a discharged obligation (no panic). "
             "is_canonical_serialization on inputs node_from_bytes accepts is true exactly when the whole input is one tree of canonical tokens. "
             "parse_triples (de_tree.rs) is NOT under contract: for it the check runs a BOUNDED stand-in on every run (a differential test of the real code against node_from_bytes over all strings of length <= 4 over 14 format-relevant bytes, <= 6 behind three heads, and 1500 random trees with mutations; labelled bounded, never counted as proved, decisive only as a refutation with a concrete input).",
        note=TB + "decode_size_with_offset assumed with the Kani-proved statement; hash_atom / hash_pair assumed to be SHA-256 of 1||atom, 2||l||r.",
        tech="contract-based deductive verification (Verus): two decoders against one grammar specification; Kani for the prefix decoder",
        ref="4/C16, 11.1"),
    "C22": dict(
        text="Partial proof (Verus) for two of the implementations: tree_hash_costed / the sha256tree operator return exactly tree_hash(tree) and "
             "tree_hash_from_stream returns tree_hash of the decoded tree, where tree_hash is the recursive definition sha256(1||atom), "
             "sha256(2||left||right) over an uninterpreted SHA-256; the precomputed table for small integers is checked completely on every run "
             "(37 hex literals against hashlib). The Python implementations are NOT under contract. For the hashes of parse_triples, of the object cache and of the interned tree the check runs BOUNDED stand-ins on every run (differential tests against the recursive definition: the finite input set of C16's stand-in, and 2000 random DAGs; labelled bounded, never counted as proved).",
        note=TB + "tree_hash_atom / tree_hash_pair / hash_atom / hash_pair (calls into chia_sha2) are ASSUMED to be SHA-256 of the documented input.",
        tech="contract-based deductive verification (Verus): machine invariant relating pending operations to the recursive hash definition",
        ref="4/C22, 11.1"),
}
