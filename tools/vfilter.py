#!/usr/bin/env python3
"""filter human-readable verus output: drop canary failures (expected), keep everything else"""
import sys, re
blocks = re.split(r"\n(?=error|warning|note: |verification results)", sys.stdin.read())
can = 0
for b in blocks:
    if b.startswith("error: assertion failed") and "assert(false); } /*@E*/" in b:
        can += 1
        continue
    if b.startswith("warning"):
        continue
    print(b)
print(f"[{can} canaries failed as required]")
