"""Claims added after the SECP unit, the F3 finding and the representation clauses."""
from claims_more import TB

MORE3 = {
    "C08": dict(
        text="Partial proof (Verus) of the mechanisms that make an unaware node agree with an aware one: (1) a softfork call whose extension is "
             "not understood (or whose arguments are malformed) returns nil, charges exactly the declared cost and leaves the allocator "
             "untouched (apply_op, clause unknown_ext), while an understood guard that completes yields nil, has consumed exactly the declared "
             "cost (non-grandfathered sets) and restores the allocator counts of entry (exit_guard, restore_checkpoint, checkpoint); (2) the "
             "4-byte secp256k1 / secp256r1 opcodes are routed to the real operators, which charge the fixed 1,300,000 / 1,850,000, return nil and "
             "leave the allocator unchanged (unit SECP), and a lemma over op_unknown's proved cost rule shows an unaware node charges exactly the "
             "same and returns nil for those opcodes; (3) ChiaDialect::op equals the operator table, in which opcodes 62..65 without their "
             "enabling flags are unknown operators, and softfork_extension maps extension numbers exactly as documented. The comparison of two "
             "whole runs is the composition of these facts (relational, not mechanised); the keccak/BLS operators themselves are not under contract "
             "(they only run inside guards, whose outcome the unaware node never observes).",
        note=TB + "ECDSA parsing/verification are opaque total functions; exit_guard's history facts are proved from the checkpoint invariant cpinv.",
        tech="contract-based deductive verification (Verus): per-path postconditions of the softfork operator, fixed-cost operators, lemma over the unknown-operator cost rule",
        ref="4/C08, 11.1"),
    "C03": dict(
        text="Partial proof (Verus) by construction of the contracts: every postcondition of the allocator readers, the operators under contract and "
             "the interpreter steps is stated over the abstract view tree(n) / bytes(n), never over how an atom is stored: small_number == fits(bytes), "
             "atom / atom_len / atom_eq / nilp / number are functions of bytes(n) (inline, heap and substring atoms included), the apply and "
             "softfork keywords are recognised by their bytes (apply_op clauses kw_bytes), new_* constructors and the restore operations keep the "
             "tree of every older node (frame clauses), and clear_validation_caches changes no node. Heap-history independence of a whole run is "
             "the composition of the frame clauses (relational, not mechanised); the BLS validation caches (validate_g1/g2) and the operators not "
             "under contract are outside the claim.",
        note=TB,
        tech="contract-based deductive verification (Verus): abstract view + frame postconditions; representation never appears in a postcondition",
        ref="4/C03, 3"),
    "C06": dict(
        text="Proof (Verus) for div, divmod, mod and modpow: the num-bigint functions and their malachite twins (op_div / op_div_malachite, "
             "op_divmod / op_divmod_malachite, op_mod / op_mod_malachite, op_modpow / op_modpow_malachite, int_atom / malachite_int_atom, "
             "number / malachite_number, new_number / new_malachite_number) are verified against the SAME contracts, and the contracts are "
             "COMPLETE in the outcome: which argument lists fail with InvalidOpArg, when the call fails with CostExceeded, when with "
             "DivisionByZero (and, for modpow, the order negative exponent before zero modulus), that every other failure is an allocator limit, "
             "that the result is the canonical encoding of the floored quotient / remainder (modpow: of the library's modpow value) of the "
             "operands' integer values, and that the cost is the documented formula plus 10 per result byte; the contracts do not mention the "
             "MALACHITE flag, so two calls that differ only in that flag have the same outcome.",
        note=TB + "Stated modulo the library specifications of both back ends (div_floor, mod_floor, div_mod_floor, modpow, sign, "
             "from/to_signed_bytes_be), which are listed as assumptions: the proof shows the repository's glue code is backend-independent; "
             "that the two libraries compute the same modpow value is assumed. Pre-hard-fork modpow: proved for allocators whose heap is below "
             "512 MiB (observation O4: the old-model cost arithmetic is unchecked). A concrete differential search over both back ends "
             "(vreplay search C06) runs when an obligation is undecided and in the thorough tier.",
        tech="contract-based deductive verification (Verus): two implementations against one contract over abstract integer values",
        ref="4/C06"),
    "C20": dict(
        text="Partial proof (Verus + Kani) of the totality and recognisability clauses: deserialize_2026_body_from_stream, "
             "deserialize_2026_from_stream, deserialize_2026 and serialized_length_serde_2026 are verified panic-free for every byte string "
             "(every index, unwrap, cast, checked arithmetic and allocation is a discharged obligation), a successful decode has consumed "
             "exactly body_end(...) bytes and the length probe succeeds exactly when body_end is defined and returns 6 + body_end, so the probe "
             "equals the bytes consumed whenever decoding succeeds; a lemma shows the classic grammar (which node_from_bytes and "
             "tree_hash_from_stream are proved to implement) rejects every blob starting with the magic prefix 0xfd 0xff. Varints are "
             "proved by Kani (harnesses varint_roundtrip and varint_decode_total run as part of this check: strict mode accepts every varint the "
             "serializer writes) and enter the Verus proof as an assumed contract with exactly that statement. The round-trip clause for whole "
             "trees is NOT decided by proof: a BOUNDED stand-in runs on every check (trees x compression levels incl. varint-width boundaries, "
             "shared sub-trees and deep spines; totality and probe == consumed on mutated blobs, all short instruction streams and 20000 random "
             "bodies; labelled bounded, never counted as proved): "
             "serialize_2026 interns atoms and pairs through HashMaps, outside Verus's fragment; the back-reference decoder's rejection of the "
             "prefix is not under contract.",
        note=TB + "Six small std calls (usize::try_from, Vec::resize, read_exact into a Vec, Vec::get().ok_or, checked_neg/checked_sub, "
             "slice::starts_with) are routed through stubs whose contracts restate the std documentation (listed). Heap allocation is "
             "assumed to succeed: the body decoder pre-allocates the declared atom length up to max_atom_len (observation O5).",
        tech="contract-based deductive verification (Verus): decoder and length probe against one recursive length specification; Kani for the varint codec",
        ref="4/C20, 11.9"),
}
