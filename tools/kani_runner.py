#!/usr/bin/env python3
"""Kani engine for C21 (serde_2026 varints): complete proofs on the compiled real crate.

Loops in write_varint/read_varint are bounded by the constant 8; inputs are fully symbolic;
unwinding assertions are on.  A passing harness is therefore a proof, not a bounded stand-in.
On failure the concrete failing input comes from the replay crate's varint enumerator (Kani's
trace is attached as the verifier output).
"""
import os
import re
import sys
import json
import time
import hashlib
import subprocess

HERE = os.path.dirname(os.path.abspath(__file__))
VERIF = os.path.dirname(HERE)
sys.path.insert(0, HERE)
import runner as R  # noqa

HARNESSES = {
    "C21": [
        ("varint_roundtrip", "C21.roundtrip", "every v in [-2^55, 2^55): write_varint emits spec_size(v) bytes (shortest), read_varint (strict and lenient) returns v and consumes exactly those bytes"),
        ("varint_decode_total", "C21.decode", "every 9-byte buffer, every available length 0..=9, both modes: no panic; Ok(v) => consumed == 1+leading_ones, v == the two's-complement value denoted, strict => shortest; Err only for empty/0xff/truncated input or (strict) a non-minimal encoding"),
    ],
    # C20's Verus proof of the 2026 decoders ASSUMES read_varint's contract with exactly the statement these two harnesses
    # prove on the compiled functions, so they are part of the C20 check
    "C20": [
        ("varint_roundtrip", "C20.kani.varint_roundtrip", "every v in [-2^55, 2^55): what write_varint emits is read back by read_varint in strict AND lenient mode as v, consuming exactly those bytes (strict mode accepts every serializer-produced varint)"),
        ("varint_decode_total", "C20.kani.varint_decode", "every 9-byte buffer, every available length, both modes: read_varint never panics, consumes exactly the declared length, fails only for empty/0xff/truncated input or (strict) a non-minimal encoding"),
    ],
    "C15": [
        ("prefix_encoder_matches_spec", "C15.kani.prefix_encoder", "every size (u64) and first byte: write_atom_encoding_prefix_with_size emits exactly the format's length prefix; sizes >= 2^34 are refused"),
        ("prefix_decoder_inverts_spec", "C15.kani.prefix_roundtrip", "every size < 2^34: decode_size_with_offset on the format's prefix returns (prefix length, size) and consumes the prefix"),
        ("canonical_atom_iff_minimal_prefix", "C15.kani.canonical_atom", "every 8-byte prefix buffer and available length: is_canonical_atom is true exactly when the prefix is the one the format defines for the size it denotes (minimal), incl. the one-byte-atom rule"),
    ],
    "C16": [
        ("prefix_decoder_total", "C16.kani.prefix_total", "every first byte and 7 following bytes, every available length: decode_size_with_offset never panics; Ok => offset == leading ones <= 6, size < 2^34 == the value denoted, consumed offset-1 bytes; Err only for >6 leading ones, truncated input, or size >= 2^34"),
        ("canonical_atom_iff_minimal_prefix", "C16.kani.canonical_atom", "is_canonical_atom never panics and accepts exactly minimal prefixes (all 8-byte buffers)"),
    ],
}
SOURCES = ["src/serde_2026/varint.rs", "src/error.rs", "src/serde/parse_atom.rs", "src/serde/write_atom.rs", "src/serde/tools.rs", "src/serde/mod.rs"]


def src_hash():
    h = hashlib.sha256()
    for s in SOURCES + []:
        with open(os.path.join("/repo", s), "rb") as f:
            h.update(f.read())
    with open(os.path.join(VERIF, "kani", "src", "lib.rs"), "rb") as f:
        h.update(f.read())
    return h.hexdigest()


def run_harness(name, use_cache):
    key = src_hash() + "-" + name
    cpath = os.path.join(R.CACHE, "kani", key + ".json")
    if use_cache and os.path.exists(cpath):
        d = json.load(open(cpath))
        d["cache_hit"] = True
        return d
    env = dict(os.environ, CARGO_NET_OFFLINE="true", CARGO_TARGET_DIR=os.path.join(R.CACHE, "kani-target-hooks"),
               RUSTFLAGS="--cfg chia_network_clvm_rs_verif")
    crate = os.path.join(VERIF, "kani")
    if not os.path.exists(os.path.join(crate, "Cargo.lock")):
        subprocess.run(["cp", "/repo/Cargo.lock", os.path.join(crate, "Cargo.lock")])
    t0 = time.time()
    try:
        p = subprocess.run(["cargo", "kani", "--harness", name], cwd=crate, env=env, capture_output=True, text=True,
                           timeout=int(os.environ.get("VERIF_KANI_TIMEOUT", "3000")))
        out = p.stdout + "\n" + p.stderr
        rc = p.returncode
    except subprocess.TimeoutExpired as e:
        out = (e.stdout or "") + "\nTIMEOUT"
        rc = -9
    d = {"harness": name, "rc": rc, "wall_s": round(time.time() - t0, 1), "cache_hit": False}
    m = re.search(r"\*\* (\d+) of (\d+) failed", out)
    d["checks_total"] = int(m.group(2)) if m else 0
    d["checks_failed"] = int(m.group(1)) if m else None
    d["successful"] = "VERIFICATION:- SUCCESSFUL" in out
    d["failed"] = "VERIFICATION:- FAILED" in out
    vt = re.search(r"Verification Time: ([0-9.]+)s", out)
    d["cbmc_s"] = float(vt.group(1)) if vt else None
    fails = re.findall(r"Check \d+: ([^\n]+)\n\s+- Status: FAILURE\n\s+- Description: \"([^\"]*)\"\n\s+- Location: ([^\n]+)", out)
    d["failures"] = [{"check": a, "description": b, "location": c} for a, b, c in fails][:10]
    d["unwinding_failed"] = any("unwinding assertion" in f["description"] for f in d["failures"])
    d["tail"] = out[-1500:]
    os.makedirs(os.path.dirname(cpath), exist_ok=True)
    json.dump(d, open(cpath, "w"))
    return d


def run_group(pid, tier, seed):
    """returns dict(lines, rc, undecided, obligations, failed, results, finder)"""
    use_cache = tier == "quick" and os.environ.get("VERIF_NO_CACHE") != "1"
    from concurrent.futures import ThreadPoolExecutor
    # the first harness builds the crate; run it alone, then the rest in parallel
    hs = HARNESSES[pid]
    results = [run_harness(hs[0][0], use_cache)]
    with ThreadPoolExecutor(max_workers=3) as ex:
        results += list(ex.map(lambda h: run_harness(h[0], use_cache), hs[1:]))
    lines = []
    rc = 0
    undecided = []
    obligations = sum(r["checks_total"] for r in results)
    failed = sum((r["checks_failed"] or 0) for r in results)
    finder = None
    for (name, label, text), r in zip(hs, results):
        if r["successful"]:
            continue
        if r["failed"] and not r["unwinding_failed"] and r["failures"]:
            if finder is None:
                R.build_replay()
                finder = R.run_replay(["search", pid, label, name, str(seed)], timeout=600)
            found = finder if finder and finder.get("found") else None
            rpath = os.path.join(VERIF, "evidence", "replay", f"{pid}-{name}.json")
            os.makedirs(os.path.dirname(rpath), exist_ok=True)
            json.dump({"property": pid, "failed_obligation": label, "harness": name, "statement": text,
                       "verifier": "kani/cbmc", "failed_checks": r["failures"], "verifier_output": r["tail"],
                       "failing_input": found}, open(rpath, "w"), indent=1)
            lines.append(f"VIOLATION property={pid} replay={rpath}" + ("" if found else " no-failing-input-found"))
            rc = 1
        else:
            undecided.append(f"kani harness {name}: no verdict (rc={r['rc']}, unwinding_failed={r['unwinding_failed']}): {r['tail'][-300:]}")
    return {"lines": lines, "rc": rc, "undecided": undecided, "obligations": obligations, "failed": failed, "results": results, "finder": finder}


def main():
    import argparse
    ap = argparse.ArgumentParser()
    ap.add_argument("pid")
    ap.add_argument("--tier", default=os.environ.get("VERIF_TIER", "quick"))
    a = ap.parse_args()
    pid = a.pid
    seed = int(os.environ.get("VERIF_SEED", "0") or 0)
    t0 = time.time()
    g = run_group(pid, a.tier, seed)
    lines, rc, undecided, obligations, failed, results, finder = g["lines"], g["rc"], g["undecided"], g["obligations"], g["failed"], g["results"], g["finder"]
    if undecided and rc == 0:
        R.build_replay()
        finder = R.run_replay(["search", pid, "any", "any", str(seed)], timeout=600)
        if finder and finder.get("found"):
            rpath = os.path.join(VERIF, "evidence", "replay", f"{pid}-undecided-with-failing-input.json")
            json.dump({"property": pid, "failed_obligation": "verifier undecided; concrete failing input found on the real code",
                       "undecided_because": undecided, "failing_input": finder}, open(rpath, "w"), indent=1)
            lines.append(f"VIOLATION property={pid} replay={rpath}")
            rc = 1
        else:
            print(f"UNDECIDED property={pid}: " + "; ".join(undecided))
            sys.exit(2)
    ev = {
        "property_id": pid, "tier": a.tier, "seed": seed, "level": "proof",
        "coverage": {
            "obligations": max(obligations, 1), "discharged": max(obligations - failed, 1) if rc == 0 else obligations - failed,
            "checker_cmd": "cd /verif/kani && CARGO_NET_OFFLINE=true cargo kani --harness <name>   (harnesses: " + ", ".join(h[0] for h in HARNESSES[pid]) + ")",
            "trusted_base": ["Kani 0.68.0 / CBMC 6.11 / kissat; rustc MIR->goto translation", "the harness text kani/src/lib.rs (spec_size and the 'value denoted' are written from the statement, not from varint_size)",
                             "loop bound: unwind 10 >= the constant 8 of the real loops, unwinding assertions ON (a too-small bound fails, it does not pass)"],
            "samples": [{"harness": h[0], "statement": h[2]} for h in HARNESSES[pid]],
            "harnesses": [{k: v for k, v in r.items() if k != "tail"} for r in results],
            "exhaustive": True,
            "input_domain": "all i64 in [-2^55, 2^55) x both modes; all 9-byte buffers x available length 0..=9 x both modes (no longer input can matter: the prefix byte bounds the length at 8)",
            "back_end": "kani/cbmc", "solver_s": sum((r.get("cbmc_s") or 0) for r in results),
            "bounded_standins": [],
            "failing_input_search": finder,
        },
        "assumptions": ["std::io::Read::read_exact / Write::write_all default methods as compiled (they are part of the verified program here, not stubs)",
                        "termination is bounded by construction (constant loop bounds)"],
        "wall_s": round(time.time() - t0, 2),
        "violations": len([l for l in lines if l.startswith("VIOLATION")]),
    }
    R.write_evidence(pid, ev)
    for l in lines:
        print(l)
    print(f"{pid}: kani checks={obligations} failed={failed} wall={ev['wall_s']}s rc={rc}")
    sys.exit(rc)


if __name__ == "__main__":
    main()
