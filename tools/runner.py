#!/usr/bin/env python3
"""Runner: assemble units from /repo's working tree, run Verus, classify, write evidence.

exit 0  every obligation mapped to the property was discharged (known findings reported)
exit 1  VIOLATION property=<id> replay=<path> [no-failing-input-found]
exit 2  undecided: lost anchor, unsupported construct, extraction not faithful, rlimit, vacuity
"""
import os
import re
import sys
import json
import time
import hashlib
import subprocess
from concurrent.futures import ThreadPoolExecutor

HERE = os.path.dirname(os.path.abspath(__file__))
VERIF = os.path.dirname(HERE)
REPO = os.environ.get("VERIF_REPO", "/repo")
sys.path.insert(0, HERE)
import extract as EX  # noqa
import vspec as VS    # noqa
from rustscan import tokenize, WS, COMMENT, IDENT, PUNCT  # noqa

CACHE = os.path.join(VERIF, ".cache")
UNITS_OUT = os.path.join(CACHE, "units")
VERUS = os.environ.get("VERIF_VERUS", "verus")
ASSUME_TOKENS = ["assume(", "admit(", "external_body", "assume_specification", "#[verifier::external",
                 "exec_allows_no_decreases_clause", "uninterp spec fn", "#[verifier::external_type_specification"]


class Undecided(Exception):
    pass


# ------------------------------------------------------------------------------------------------
def verus_version():
    try:
        out = subprocess.run([VERUS, "--version"], capture_output=True, text=True, timeout=60).stdout
        m = re.search(r"Version:\s*(\S+)", out)
        return m.group(1) if m else "unknown"
    except Exception:
        return "unknown"


def label_map(text):
    """clause regions of the assembled file: list of (first_line, last_line, labels or None)"""
    regions = []
    cur = None
    for n, line in enumerate(text.split("\n"), 1):
        for m in re.finditer(r"/\*@C ([^*]*)\*/|/\*@E\*/", line):
            if cur is not None:
                end = n if line[:m.start()].strip() else n - 1
                regions.append((cur[0], max(end, cur[0]), cur[1]))
                cur = None
            if m.group(1) is not None:
                labs = None if m.group(1).strip() == "-" else [x for x in re.split(r"[ ,]+", m.group(1).strip()) if x]
                cur = (n, labs)
    return regions


def count_builtin_sites(body_text):
    """syntactic count of built-in obligation sites in a function body (arithmetic, casts, indexing,
    panicking calls, call sites)."""
    toks = [t for t in tokenize(body_text) if t.kind not in (WS, COMMENT)]
    n = 0
    depth_marker = 0
    for i, t in enumerate(toks):
        if t.kind == PUNCT and t.text in ("+", "-", "*", "/", "%", "<<", ">>", "+=", "-=", "*=", "/=", "<<=", ">>="):
            n += 1
        elif t.kind == IDENT and t.text == "as":
            n += 1
        elif t.kind == PUNCT and t.text == "[" and i > 0 and (toks[i - 1].kind == IDENT or toks[i - 1].text in (")", "]")):
            n += 1
        elif t.kind == IDENT and t.text in ("unwrap", "expect", "assert", "unreachable", "panic", "assert_eq", "unimplemented"):
            n += 1
        elif t.kind == PUNCT and t.text == "(" and i > 0 and toks[i - 1].kind == IDENT and toks[i - 1].text not in (
                "if", "while", "match", "for", "return", "in", "as", "let", "assert", "Some", "Ok", "Err"):
            n += 1
    return n


def strip_marked(text):
    out = []
    depth = 0
    for t in tokenize(text):
        if t.kind == COMMENT and t.text.startswith("/*@L"):
            depth += 1
            continue
        if t.kind == COMMENT and t.text.startswith("/*@E"):
            depth -= 1
            continue
        if depth == 0:
            out.append(t.text)
    return "".join(out)


class UnitRun:
    def __init__(self, name, tier="quick", rlimit=None, extra_args=None, use_cache=True):
        self.name = name
        self.tier = tier
        self.rlimit = rlimit
        self.extra_args = extra_args or []
        self.use_cache = use_cache
        self.failures = []       # dicts: fn, labels, kind, message, line, rendered
        self.fn_status = {}      # emitted fn name -> {success,time_us,rlimit}
        self.compile_errors = []
        self.rlimit_hits = []

    def assemble(self):
        t0 = time.time()
        self.asm, self.text, self.path = EX.build_unit(self.name, UNITS_OUT)
        exp, act = self.asm.fidelity_check(self.text)
        exp = EX.normalise_pub(exp)
        act = EX.normalise_pub(act)
        if exp != act:
            k = 0
            while k < min(len(exp), len(act)) and exp[k] == act[k]:
                k += 1
            raise Undecided(f"extraction not faithful in unit {self.name} at token {k}: expected "
                            f"{' '.join(exp[max(0, k - 5):k + 5])!r} got {' '.join(act[max(0, k - 5):k + 5])!r}")
        self.tokens_checked = len(exp)
        self.regions = label_map(self.text)
        self.lines = self.text.split("\n")
        self.assemble_s = time.time() - t0
        # function table: emitted name -> info (line ranges)
        self.fn_ranges = []
        for name, infos in self.asm.funcs.items():
            for inf in infos:
                self.fn_ranges.append((inf["first"], inf["last"], name, inf))
        self.scan_assumptions()

    def scan_assumptions(self):
        allowed = load_assumptions()
        self.assumption_hits = []
        for n, line in enumerate(self.lines, 1):
            code = line.split("//")[0]
            for tok in ASSUME_TOKENS:
                if tok in code:
                    # identify by the next fn/struct name
                    ident = None
                    inside = self.fn_at(n)
                    if inside is not None and tok in ("assume(", "admit("):
                        ident = inside[3]["path"].split("::")[-1]
                    if tok == "assume_specification":
                        ms = re.search(r"assume_specification\s*(?:<[^\[]*>)?\s*\[\s*([^\]]+)\]", code)
                        if ms:
                            ident = ms.group(1).strip().split("::")[-1]
                    for look in ([] if ident else self.lines[n - 1:n + 6]):
                        m = re.search(r"\b(fn|struct|spec fn)\s+([A-Za-z_0-9]+)", look)
                        if m:
                            ident = re.sub(r"__(strict|canary)$", "", m.group(2))
                            break
                    self.assumption_hits.append((tok, ident, n))
        unknown = []
        for tok, ident, n in self.assumption_hits:
            key = ident or "?"
            fninfo = self.fn_at(n)
            if fninfo and fninfo[3]["mode"] == "extern":
                continue  # externs are listed through asm.assumptions
            if key not in allowed:
                unknown.append(f"{tok} {key} (line {n})")
        if unknown:
            raise Undecided(f"unit {self.name}: assumption(s) not listed in contracts/ASSUMPTIONS.tsv: " + "; ".join(unknown[:8]))

    def fn_at(self, line):
        best = None
        for (a, b, name, inf) in self.fn_ranges:
            if a <= line <= b and (best is None or (b - a) < (best[1] - best[0])):
                best = (a, b, name, inf)
        return best

    def labels_at(self, line):
        for (a, b, labs) in self.regions:
            if a <= line <= b:
                return labs
        return None

    def run(self):
        args = [VERUS, self.path, "--edition", "2024", "--output-json", "--time", "--error-format=json",
                "--multiple-errors", "12", "--num-threads", os.environ.get("VERIF_THREADS", "8")]
        if self.rlimit:
            args += ["--rlimit", str(self.rlimit)]
        args += self.extra_args
        key = hashlib.sha256((self.text + "\0" + " ".join(args[2:]) + "\0" + verus_version()).encode()).hexdigest()
        cpath = os.path.join(CACHE, "verus", key + ".json")
        self.cache_hit = False
        if self.use_cache and os.path.exists(cpath):
            with open(cpath) as f:
                d = json.load(f)
            self.cache_hit = True
        else:
            t0 = time.time()
            p = subprocess.run(args, capture_output=True, text=True, cwd=UNITS_OUT,
                               timeout=int(os.environ.get("VERIF_VERUS_TIMEOUT", "1500")))
            d = {"stdout": p.stdout, "stderr": p.stderr, "rc": p.returncode, "wall_s": time.time() - t0}
            os.makedirs(os.path.dirname(cpath), exist_ok=True)
            with open(cpath, "w") as f:
                json.dump(d, f)
        self.cmd = " ".join(args)
        self.wall_s = d["wall_s"]
        self.raw = d
        self.parse(d)

    def parse(self, d):
        try:
            out = json.loads(d["stdout"]) if d["stdout"].strip() else {}
        except json.JSONDecodeError:
            out = {}
        self.vresults = out.get("verification-results", {})
        smt = out.get("times-ms", {}).get("smt", {})
        for mod in smt.get("smt-run-module-times", []):
            for fb in mod.get("function-breakdown", []):
                nm = fb["function"].split("::")[-1]
                self.fn_status.setdefault(nm, []).append({"success": fb.get("success"), "time_us": fb.get("time-micros", 0),
                                                          "rlimit": fb.get("rlimit", 0), "mode": fb.get("mode:", ""), "full": fb["function"]})
        self.smt_ms = smt.get("total", 0)
        for line in d["stderr"].split("\n"):
            line = line.strip()
            if not line.startswith("{"):
                continue
            try:
                m = json.loads(line)
            except json.JSONDecodeError:
                continue
            if m.get("level") not in ("error",):
                continue
            msg = m.get("message", "")
            if msg.startswith("aborting due to"):
                continue
            all_spans = m.get("spans", [])
            # spans inside vstd (e.g. the postcondition of an external trait specification) carry
            # line numbers of another file: keep only spans of the assembled unit for mapping
            spans = [s for s in all_spans if os.path.basename(s.get("file_name", "")) == os.path.basename(self.path)]
            prim = [s for s in spans if s.get("is_primary")] or spans
            if not spans:
                self.compile_errors.append(msg + " " + m.get("rendered", "")[:300])
                continue
            pl = prim[0]["line_start"]
            rec = {"message": msg, "line": pl, "rendered": m.get("rendered", "")[:1500], "spans": [(s["line_start"], s.get("label")) for s in spans]}
            if m.get("code") is not None or not self.is_verification_msg(msg):
                self.compile_errors.append(f"{msg} (line {pl}: {self.lines[pl - 1].strip()[:100] if pl <= len(self.lines) else ''})")
                continue
            if "rlimit" in msg.lower() or "resource limit" in msg.lower():
                fn = self.fn_at(pl)
                if fn and fn[3]["mode"] in ("strict", "canary"):
                    # a twin that is expected not to verify: running out of resources is "did not verify"
                    self.failures.append({"message": msg, "line": pl, "rendered": m.get("rendered", "")[:600], "spans": [],
                                          "fn": fn[2], "fn_info": fn[3], "labels": None, "kind": "rlimit"})
                    continue
                self.rlimit_hits.append(fn[2] if fn else f"line {pl}")
                continue
            # which function does it belong to?  the body-side span decides.
            fn = None
            for s in spans:
                f = self.fn_at(s["line_start"])
                if f is not None and (s.get("label") or "").startswith(("at the end of the function body", "at this exit", "at this function exit")):
                    fn = f
            if fn is None:
                # precondition failures: primary span is the call site
                for s in prim + spans:
                    f = self.fn_at(s["line_start"])
                    if f is not None:
                        fn = f
                        break
            labels = None
            if "postcondition" in msg or "invariant" in msg or "decreases" in msg:
                for s in spans:
                    labs = self.labels_at(s["line_start"])
                    if labs is not None or "failed this" in (s.get("label") or ""):
                        labels = labs
                        if labs:
                            break
            rec["fn"] = fn[2] if fn else None
            rec["fn_info"] = fn[3] if fn else None
            rec["labels"] = labels
            rec["kind"] = ("postcondition" if "postcondition" in msg else "invariant" if "invariant" in msg else
                           "precondition" if "precondition" in msg else "assertion" if "assert" in msg else
                           "overflow" if "overflow" in msg else "builtin")
            self.failures.append(rec)

    @staticmethod
    def is_verification_msg(msg):
        keys = ["postcondition not satisfied", "precondition not satisfied", "assertion failed", "invariant not satisfied",
                "possible arithmetic underflow/overflow", "possible division by zero", "decreases not satisfied",
                "rlimit", "Resource limit", "possible bit shift underflow/overflow", "index out of bounds",
                "unreachable", "failed", "possible", "not satisfied", "could not prove", "loop invariant", "recommendation not met",
                "termination", "function body check", "not met"]
        return any(k in msg for k in keys)


_ASSUME_CACHE = None


def load_assumptions():
    global _ASSUME_CACHE
    if _ASSUME_CACHE is None:
        d = {}
        p = os.path.join(VERIF, "contracts", "ASSUMPTIONS.tsv")
        if os.path.exists(p):
            for line in open(p):
                if line.strip() and not line.startswith("#"):
                    parts = line.rstrip("\n").split("\t")
                    d[parts[0]] = parts[1] if len(parts) > 1 else ""
        _ASSUME_CACHE = d
    return _ASSUME_CACHE


# ------------------------------------------------------------------------------------------------
def units_for_property(pid, units):
    res = []
    for u in units.values():
        hit = False
        for e in u.entries:
            if e[0] != "fn":
                continue
            fs = e[1]
            if pid in fs.props:
                hit = True
            for txt in [fs.spec, fs.strict or ""] + [l[1] for l in fs.loops.values()]:
                for c in VS.split_clauses(txt):
                    if c[1] and any(l.split(".")[0] == pid for l in c[1]):
                        hit = True
        if hit:
            res.append(u.name)
    return res


def load_known():
    p = os.path.join(VERIF, "known_findings.json")
    if not os.path.exists(p):
        return []
    return json.load(open(p))["findings"]


def replay_bin():
    return os.path.join(CACHE, "target", "release", "vreplay")


def build_replay():
    """(re)build the replay crate against /repo's working tree; returns path or None"""
    crate = os.path.join(VERIF, "replay")
    if not os.path.exists(os.path.join(crate, "Cargo.toml")):
        return None
    env = dict(os.environ, CARGO_NET_OFFLINE="true", CARGO_TARGET_DIR=os.path.join(CACHE, "target"))
    p = subprocess.run(["cargo", "build", "--release", "--offline", "--quiet"], cwd=crate, env=env, capture_output=True, text=True)
    if p.returncode != 0:
        sys.stderr.write("replay crate failed to build:\n" + p.stderr[-3000:] + "\n")
        return None
    return replay_bin()


def run_replay(args, timeout=600):
    b = replay_bin()
    if not os.path.exists(b):
        return None
    try:
        p = subprocess.run([b] + args, capture_output=True, text=True, timeout=timeout)
    except subprocess.TimeoutExpired:
        return None
    for line in p.stdout.split("\n"):
        if line.startswith("{"):
            try:
                return json.loads(line)
            except json.JSONDecodeError:
                pass
    return None


SIDE_TABLE_PROPS = ("C22", "C05")
# BOUNDED stand-ins: differential checks of real functions that no contract reaches (never counted as proved; decisive only
# as a refutation with a concrete input).  property -> (vreplay stand-in name, function, what is compared)
BOUNDED_STANDINS = {
    "C15": [("objcache", "serde::object_cache::{ObjectCache, serialized_length}", "the object-cache serialized length equals the number of bytes node_to_bytes produces")],
    "C16": [("triples", "serde::de_tree::parse_triples", "parse_triples succeeds on exactly the inputs node_from_bytes accepts and consumes the same bytes")],
    "C20": [("ser26", "serde_2026::{serialize_2026, deserialize_2026, serialized_length_serde_2026}", "serialize_2026 output decodes (strict and lenient) to the same tree, the length probe returns the blob length; decoders total on byte strings; classic decoders reject the magic prefix")],
    "C29": [("brlimit", "serde::ser_br::node_to_stream_backrefs (assumed contract in the proof of node_to_bytes_backrefs_limit)", "node_to_bytes_backrefs_limit returns the unlimited serialization when it fits and OutOfMemory otherwise")],
    "C22": [("triples", "serde::de_tree::parse_triples", "the tree hashes parse_triples returns equal the recursive definition's"),
            ("objcache", "serde::object_cache::treehash, serde::intern::InternedTree::tree_hash", "the object-cache tree hash and the interned tree's hash equal the recursive definition's")],
}


def dialect_witness_check(fnspecs):
    """The dispatch unit DIALECT declares every operator function as an external witness carrying the generic operator
    contract op_generic.  That contract is PROVED per operator in the operator's home unit (a clause labelled *.generic whose
    text is op_generic(old, final, r)); this check ties the two: every witness must have such a home clause, otherwise the
    generic contract of that operator is an unlisted assumption."""
    p = os.path.join(VERIF, "contracts", "dialect_ops.inc")
    if not os.path.exists(p):
        return {"checked": 0, "missing": []}
    names = re.findall(r"^fn (op_[A-Za-z0-9_]+)\(", open(p).read(), re.M)
    missing = []
    for nme in names:
        homes = [fs for path, fs in fnspecs.items() if path.split("::")[-1] == nme]
        ok = False
        for fs in homes:
            for c in VS.split_clauses(fs.spec):
                if c[1] and any(l.endswith(".generic") for l in c[1]) and re.sub(r"\s+", "", c[2]).startswith("op_generic(&*old(") :
                    ok = True
        if not ok:
            missing.append(nme)
    return {"checked": len(names), "missing": missing}


def precomputed_table_check():
    """The stub precomputed_hash (unit TREEHASH) assumes entry v of more_ops::PRECOMPUTED_HASHES is
    sha256(0x01 || canonical bytes of v).  The table is finite (37 hex literals in the source text),
    so the assumption is checked completely on every run, against Python's hashlib."""
    import hashlib
    try:
        src = open(os.path.join(REPO, "src", "more_ops.rs")).read()
        a = src.index("pub const PRECOMPUTED_HASHES")
        b = src.index("\n];", a)
        entries = re.findall(r'hex!\(\s*"([0-9a-fA-F]{64})"\s*\)', src[a:b])
        decl = re.search(r"PRECOMPUTED_HASHES\s*:\s*\[\s*\[\s*u8\s*;\s*32\s*\]\s*;\s*(\d+)\s*\]", src[a:b])
        n = int(decl.group(1)) if decl else -1
    except (OSError, ValueError) as e:
        return {"found": False, "error": f"cannot read the table: {e}"}
    if n != len(entries):
        return {"found": False, "error": f"declared length {n} but {len(entries)} hex literals parsed"}
    for v, h in enumerate(entries):
        want = hashlib.sha256(bytes([1]) + (bytes([v]) if v else b"")).hexdigest()
        if h.lower() != want:
            return {"found": True, "finder": "precomputed-table", "index": v, "table": h.lower(), "sha256_1_v": want}
    # the literal op_sha256 returns for an empty argument list (stub sha256_of_nothing, unit SHAOP)
    empty = hashlib.sha256(b"").hexdigest()
    m = re.search(r"pub fn op_sha256\(.*?\n}\n", src, re.S)
    lits = re.findall(r'hex!\(\s*"([0-9a-fA-F]{64})"\s*\)', m.group(0)) if m else []
    if len(lits) != 1:
        return {"found": False, "error": f"expected one hex literal in op_sha256, found {len(lits)}"}
    if lits[0].lower() != empty:
        return {"found": True, "finder": "precomputed-table", "what": "op_sha256's digest for an empty argument list", "literal": lits[0].lower(), "sha256_empty": empty}
    return {"found": False, "finder": "precomputed-table", "entries": len(entries) + 1}


def check_property(pid, tier="quick", seed=0):
    t0 = time.time()
    # replay files describe the run that wrote them: the ones an earlier run of this property left behind are removed first, so
    # that evidence/replay only ever holds violations of the tree that was checked last
    rdir = os.path.join(VERIF, "evidence", "replay")
    for f in (os.listdir(rdir) if os.path.isdir(rdir) else []):
        if f.startswith(pid + "-") and f.endswith(".json"):
            os.remove(os.path.join(rdir, f))
    units, fnspecs = VS.load_all(os.path.join(VERIF, "contracts"))
    unames = units_for_property(pid, units)
    if not unames:
        import kani_runner as KR0
        if pid not in KR0.HARNESSES:
            raise Undecided(f"no unit carries obligations for {pid}")
    use_cache = tier == "quick" and os.environ.get("VERIF_NO_CACHE") != "1"
    runs = [UnitRun(n, tier, rlimit=(max(40, 2 * units[n].rlimit) if tier == "thorough" else (units[n].rlimit or None)),
                    extra_args=(["--smt-option", f"smt.random_seed={seed % 1000}"] if tier == "thorough" else []),
                    use_cache=use_cache) for n in unames]
    problems = []        # reasons the verifier's verdict cannot be trusted as a whole (-> undecided)
    live = []
    for r in runs:
        try:
            r.assemble()
            live.append(r)
        except (Undecided, EX.ExtractError, VS.SpecError) as e:
            problems.append(str(e))
    with ThreadPoolExecutor(max_workers=4) as ex:
        list(ex.map(lambda r: r.run(), live))

    # ---- stability filter: a failed obligation of a `home` function is reported only if it fails
    # again under two other solver seeds with a doubled resource limit.  A real violation fails under
    # every seed (the verifier is sound); a proof that merely became unstable after an unrelated edit
    # is reported as undecided, never as a violation.
    def fkey(f):
        return (f["fn"], tuple(f["labels"]) if f["labels"] else ("builtin", f["kind"], f["line"]))
    unstable_notes = []
    for r in live:
        home_fails = [f for f in r.failures if f.get("fn_info") and f["fn_info"]["mode"] == "home"]
        if r.compile_errors or not home_fails:
            continue
        stable = {fkey(f) for f in home_fails}
        for alt in (1, 2):
            r2 = UnitRun(r.name, tier, rlimit=(2 * (r.rlimit or 40)), extra_args=["--smt-option", f"smt.random_seed={(seed + 7919 * alt) % 1000 + 1}"], use_cache=use_cache)
            r2.asm, r2.text, r2.path = r.asm, r.text, r.path
            r2.regions, r2.lines, r2.fn_ranges = r.regions, r.lines, r.fn_ranges
            r2.tokens_checked = getattr(r, "tokens_checked", 0)
            try:
                r2.run()
            except Exception as e:    # timeout etc.: keep the first verdict
                break
            if r2.compile_errors:
                break
            stable &= {fkey(f) for f in r2.failures if f.get("fn_info") and f["fn_info"]["mode"] == "home"}
            if not stable:
                break
        dropped = [f for f in home_fails if fkey(f) not in stable]
        if dropped:
            r.failures = [f for f in r.failures if not (f.get("fn_info") and f["fn_info"]["mode"] == "home" and fkey(f) not in stable)]
            unstable_notes.append(f"unit {r.name}: {len(dropped)} obligation(s) failed under the default solver seed but verified under another "
                                  f"(unstable proof, e.g. {dropped[0]['fn']}: {dropped[0]['message']}): not reported as violations")
    problems += unstable_notes

    # ---- thorough tier: every unit again under two more solver seeds (default resource limit): a proof
    # that only holds under one seed is reported (undecided), so that it gets a more explicit proof
    sweep = []
    if tier == "thorough":
        for r in live:
            if r.compile_errors or [f for f in r.failures if f.get("fn_info") and f["fn_info"]["mode"] == "home"]:
                continue
            for alt in (1, 2):
                r3 = UnitRun(r.name, tier, rlimit=(units[r.name].rlimit or None), extra_args=["--smt-option", f"smt.random_seed={(seed * 31 + 17 * alt) % 1000 + 1}"], use_cache=False)
                r3.asm, r3.text, r3.path = r.asm, r.text, r.path
                r3.regions, r3.lines, r3.fn_ranges = r.regions, r.lines, r.fn_ranges
                try:
                    r3.run()
                except Exception as e:
                    sweep.append({"unit": r.name, "seed_index": alt, "error": str(e)[:200]})
                    continue
                bad = sorted({f["fn"] for f in r3.failures if f.get("fn_info") and f["fn_info"]["mode"] == "home"} | set(r3.rlimit_hits))
                sweep.append({"unit": r.name, "seed_index": alt, "home_failures": bad, "wall_s": round(r3.wall_s, 1)})
                if bad:
                    problems.append(f"unit {r.name}: proof of {', '.join(bad[:4])} does not hold under solver seed #{alt} (unstable; passes under the default seed)")

    violations = []      # definite: (inf, failure rec, unit run)
    suspects = []        # failures in functions whose proof scaffolding lost an anchor
    strict_fail = []
    canary_ok = []
    obligations = 0
    discharged = 0
    fn_table = []
    samples = []
    trusted = set()
    rewrites = {}
    solver_ms = 0
    lost_all = []
    for r in live:
        if r.compile_errors:
            problems.append(f"unit {r.name}: the verifier front end rejected the assembled text (unsupported construct or type "
                            f"error, not a proof failure): " + " | ".join(r.compile_errors[:3]))
            continue
        if not r.fn_status:
            problems.append(f"unit {r.name}: verifier produced no function results (rc={r.raw['rc']}): {r.raw['stderr'][-300:]}")
            continue
        solver_ms += r.smt_ms
        lost_fns = {l["emitted"] for l in r.asm.lost}
        lost_all += [f"{l['fn']}: {l['what']}" for l in r.asm.lost]
        for a in r.asm.assumptions:
            trusted.add(a)
        for tok, ident, n in r.assumption_hits:
            fninfo = r.fn_at(n)
            if fninfo and fninfo[3]["mode"] == "extern":
                continue
            trusted.add(f"{tok.strip('(#[')} {ident}: " + load_assumptions().get(ident or "?", ""))
        for e in r.asm.log:
            rewrites[e["rule"]] = rewrites.get(e["rule"], 0) + 1
        failed_by_fn = {}
        for f in r.failures:
            failed_by_fn.setdefault(f["fn"], []).append(f)
        if failed_by_fn.get(None):
            # a failed obligation that belongs to no function / constant under contract: never silently dropped
            problems.append(f"unit {r.name}: {len(failed_by_fn[None])} failed obligation(s) outside any function under contract "
                            f"(first: {failed_by_fn[None][0]['message']} at line {failed_by_fn[None][0]['line']})")
        for name, infos in r.asm.funcs.items():
            for inf in infos:
                if inf["mode"] == "canary":
                    if not failed_by_fn.get(name):
                        problems.append(f"vacuity: canary {name} verified (contradictory precondition/invariant) in unit {r.name}")
                    else:
                        canary_ok.append(name)
        if r.rlimit_hits:
            problems.append(f"resource limit hit in unit {r.name}: {', '.join(r.rlimit_hits)}")
        for name, infos in r.asm.funcs.items():
            for inf in infos:
                if inf["mode"] not in ("home", "strict"):
                    continue
                seg = "\n".join(r.lines[inf["first"] - 1:inf["last"]])
                clauses = [(a, b, labs) for (a, b, labs) in r.regions if inf["first"] <= a <= inf["last"]]
                mine = [c for c in clauses if c[2] and any(l.split(".")[0] == pid for l in c[2])]
                builtin = count_builtin_sites(strip_marked(seg)) if pid in inf["props"] else 0
                unl = len([c for c in clauses if not c[2]]) if pid in inf["props"] else 0
                if not mine and not builtin and not unl:
                    continue
                st = r.fn_status.get(name)
                if st is None and inf.get("bodyless"):
                    continue
                if st is None and inf.get("const"):
                    st = [{"success": not failed_by_fn.get(name), "time_us": 0}]   # trait method declaration: a contract without a body carries no obligation of its own
                if st is None:
                    problems.append(f"function {name} ({inf['path']}) does not appear in the verifier's function breakdown")
                    continue
                fails = failed_by_fn.get(name, [])
                my_fails = []
                for f in fails:
                    if f["labels"]:
                        if any(l.split(".")[0] == pid for l in f["labels"]):
                            my_fails.append(f)
                    elif pid in inf["props"]:
                        my_fails.append(f)
                n_ob = len(mine) + builtin + unl
                if inf["mode"] == "strict":
                    if my_fails:
                        strict_fail.append((inf, my_fails, r))
                    continue
                obligations += n_ob
                discharged += n_ob - min(n_ob, len(my_fails))
                for f in my_fails:
                    (suspects if name in lost_fns else violations).append((inf, f, r))
                ok = all(s["success"] for s in st)
                fn_table.append({"function": inf["path"], "unit": r.name, "labelled": [l for c in mine for l in c[2]],
                                 "builtin_sites": builtin, "unlabelled_clauses": unl, "verified": ok and not my_fails,
                                 "time_ms": round(sum(s["time_us"] for s in st) / 1000, 1), "rlimit": sum(s["rlimit"] for s in st)})
                if mine and len(samples) < 6:
                    a, b, labs = mine[0]
                    samples.append({"function": inf["path"], "label": labs, "clause": " ".join(x.strip() for x in r.lines[a - 1:b])[:400]})
    if suspects:
        problems.append("obligation(s) failed in function(s) whose proof hints lost their anchor (the failure may be the missing hint): "
                        + "; ".join(sorted({f"{inf['path']} [{(f['labels'] or [f['kind']])[0]}]" for inf, f, r in suspects})))

    # ---- Kani component (byte-level codecs: complete proofs on the compiled crate) --------------
    kani_part = None
    kani_lines = []
    import kani_runner as KR
    if pid in KR.HARNESSES:
        kani_part = KR.run_group(pid, tier, seed)
        obligations += kani_part["obligations"]
        discharged += kani_part["obligations"] - kani_part["failed"]
        problems += kani_part["undecided"]
        kani_lines = kani_part["lines"]
        for (hname, hlabel, htext), hr in zip(KR.HARNESSES[pid], kani_part["results"]):
            fn_table.append({"function": f"kani harness {hname}", "unit": "KANI", "labelled": [hlabel], "builtin_sites": hr["checks_total"],
                             "unlabelled_clauses": 0, "verified": bool(hr["successful"]), "time_ms": round(1000 * (hr.get("cbmc_s") or 0), 1), "rlimit": 0})
            if len(samples) < 8:
                samples.append({"function": f"kani harness {hname}", "label": [hlabel], "clause": htext})
        trusted.add("Kani 0.68.0 / CBMC 6.11 for the byte-level codec harnesses (kani/src/lib.rs): fully symbolic inputs, loop bounds = prefix length <= 8 with unwinding assertions on; built with --cfg chia_network_clvm_rs_verif (hooks re-export private functions, add-only)")

    if obligations == 0 and not problems:
        problems.append(f"vacuity: zero obligations counted for {pid}")

    # ---- known findings -----------------------------------------------------------------------
    known = [k for k in load_known() if pid in k["properties"]]
    out_lines = list(kani_lines)
    real_violations = []
    replay_built = None
    if strict_fail or violations or problems:
        replay_built = build_replay()
    for inf, fails, r in strict_fail:
        labs = sorted({l for f in fails for l in (f["labels"] or [f"builtin:{f['kind']}"])})
        ks = [k for k in known if k["function"] == inf["path"] and k.get("status", "known") == "known"]
        matched = None
        for k in ks:
            if set(labs) <= set(k["strict_labels"]):
                matched = k
        if matched is None:
            for f in fails:
                real_violations.append((inf, f, r, "strict clause fails outside the listed findings"))
            continue
        rep = run_replay(["finding", matched["id"]]) if replay_built else None
        if rep is not None and rep.get("reproduced"):
            out_lines.append(f"KNOWN-FINDING: property={pid} {matched['id']}: {matched['what']}")
        elif rep is not None and not rep.get("reproduced"):
            for f in fails:
                real_violations.append((inf, f, r, f"strict clause still fails but the listed input of {matched['id']} no longer reproduces"))
        else:
            out_lines.append(f"KNOWN-FINDING: property={pid} {matched['id']}: {matched['what']} (replay binary unavailable; matched by obligation only)")
    for inf, f, r in violations:
        real_violations.append((inf, f, r, ""))

    # ---- concrete side conditions (finite tables an assumed contract relies on) ------------------
    side_results = []
    side_violation = None
    if pid in SIDE_TABLE_PROPS:
        side = precomputed_table_check()
        side_results.append(side)
        if side.get("found"):
            side_violation = side
        elif side.get("error"):
            problems.append("precomputed-hash table check: " + side["error"])

    if any(r.name.split("__")[0] == "DIALECT" for r in live):
        dw = dialect_witness_check(fnspecs)
        side_results.append({"check": "dialect-witnesses", **dw})
        if dw["missing"]:
            problems.append("operator witnesses of unit DIALECT without a proved generic clause in their home unit: " + ", ".join(dw["missing"]))

    # ---- bounded stand-ins (functions not under contract; every run) -----------------------------
    standin_results = []
    standin_violation = None
    for sname, sfn, swhat in BOUNDED_STANDINS.get(pid, []):
        if replay_built is None:
            replay_built = build_replay()
        sr = run_replay(["standin", sname, str(seed)], timeout=600) if replay_built else None
        if not sr or sr.get("error"):
            problems.append(f"bounded stand-in {sname} could not run: {json.dumps(sr)[:200]}")
        else:
            standin_results.append({"function": sfn, "not_under_contract": True, "labelled": "bounded (never counted as proved)", "compares": swhat, **sr})
            if sr.get("found") and standin_violation is None:
                standin_violation = (sname, sfn, swhat, sr)

    # ---- violations ---------------------------------------------------------------------------
    rc = 1 if any(l.startswith("VIOLATION") for l in kani_lines) else 0
    if standin_violation:
        sname, sfn, swhat, sr = standin_violation
        os.makedirs(os.path.join(VERIF, "evidence", "replay"), exist_ok=True)
        rpath = os.path.join(VERIF, "evidence", "replay", f"{pid}-bounded-standin-{sname}.json")
        with open(rpath, "w") as fh:
            json.dump({"property": pid, "failed_obligation": "bounded stand-in (differential check of the real code; function not under contract): " + swhat,
                       "function": sfn, "failing_input": sr, "replay_cmd": f"./check {pid} --replay {rpath}"}, fh, indent=1)
        out_lines.append(f"VIOLATION property={pid} replay={rpath}")
        rc = 1
    if side_violation:
        os.makedirs(os.path.join(VERIF, "evidence", "replay"), exist_ok=True)
        rpath = os.path.join(VERIF, "evidence", "replay", f"{pid}-precomputed-table.json")
        with open(rpath, "w") as fh:
            json.dump({"property": pid, "failed_obligation": "assumed contract of precomputed_hash (table entry == sha256(1 || small integer))",
                       "failing_input": side_violation, "replay_cmd": f"./check {pid} --replay {rpath}"}, fh, indent=1)
        out_lines.append(f"VIOLATION property={pid} replay={rpath}")
        rc = 1
    os.makedirs(os.path.join(VERIF, "evidence", "replay"), exist_ok=True)
    finder_timeout = 900 if tier == "thorough" else 300
    finder_result = None
    if tier == "thorough" and replay_built is None:
        replay_built = build_replay()
    if replay_built and (real_violations or problems or tier == "thorough"):
        finder_result = run_replay(["search", pid, "any", "any", str(seed)], timeout=finder_timeout)
    if tier == "thorough" and finder_result and finder_result.get("found") and not real_violations and not problems:
        # the verifier accepts every obligation but the concrete search on the real code reports a
        # counterexample: one of the two is wrong (an assumed contract, or the search's oracle);
        # never an alarm without a failed obligation, never a silent pass either
        problems.append("concrete search on the real code reports a counterexample although every obligation verified: " + json.dumps(finder_result)[:300])
    found = finder_result if (finder_result and finder_result.get("found")) else None
    seen = set()
    for inf, f, r, why in real_violations:
        lab = (f["labels"] or [f"builtin-{f['kind']}"])[0]
        key = (inf["path"], lab)
        if key in seen:
            continue
        seen.add(key)
        rpath = os.path.join(VERIF, "evidence", "replay", f"{pid}-{re.sub(r'[^A-Za-z0-9_.-]', '_', inf['path'] + '-' + lab)}.json")
        doc = {"property": pid, "function": inf["path"], "source": f"{inf['file']}:{inf['src_line']}", "unit": r.name,
               "failed_obligation": lab, "kind": f["kind"], "verifier_message": f["message"], "verifier_output": f["rendered"],
               "note": why, "failing_input": found, "replay_cmd": f"./check {pid} --replay {rpath}"}
        with open(rpath, "w") as fh:
            json.dump(doc, fh, indent=1)
        tail = "" if found else " no-failing-input-found"
        out_lines.append(f"VIOLATION property={pid} replay={rpath}{tail}")
        rc = 1
    if not real_violations and problems:
        if found:
            # the verifier could not decide, but the real code breaks the property on a concrete input
            rpath = os.path.join(VERIF, "evidence", "replay", f"{pid}-undecided-with-failing-input.json")
            doc = {"property": pid, "failed_obligation": "verifier undecided; concrete failing input found on the real code",
                   "undecided_because": problems, "failing_input": found, "replay_cmd": f"./check {pid} --replay {rpath}"}
            with open(rpath, "w") as fh:
                json.dump(doc, fh, indent=1)
            out_lines.append(f"VIOLATION property={pid} replay={rpath}")
            rc = 1
        else:
            raise Undecided("; ".join(problems) + (f" [failing-input search: {json.dumps(finder_result)[:200]}]" if finder_result else ""))

    # ---- evidence -----------------------------------------------------------------------------
    ev = {
        "property_id": pid, "tier": tier, "seed": seed, "level": "proof",
        "coverage": {
            "obligations": max(obligations, 1), "discharged": max(discharged, 1) if rc == 0 else discharged,
            "checker_cmd": "; ".join([r.cmd for r in live if hasattr(r, "cmd")] + (["cd /verif/kani && RUSTFLAGS='--cfg chia_network_clvm_rs_verif' CARGO_NET_OFFLINE=true cargo kani --harness <" + ",".join(h[0] for h in KR.HARNESSES[pid]) + ">"] if kani_part else [])),
            "trusted_base": sorted(trusted) + [f"extractor rewrite rules applied: {json.dumps(rewrites, sort_keys=True)} (fidelity check: {sum(getattr(r, 'tokens_checked', 0) for r in live)} tokens compared)",
                                               "Verus " + verus_version() + " + bundled Z3; termination of exec loops not proved where exec_allows_no_decreases_clause is listed"],
            "samples": samples,
            "functions_under_contract": fn_table,
            "units": [{"unit": r.name, "verus_wall_s": round(getattr(r, "wall_s", 0), 2), "cache_hit": getattr(r, "cache_hit", False), "smt_ms": r.smt_ms if hasattr(r, "smt_ms") else 0,
                       "verified": getattr(r, "vresults", {}).get("verified"), "errors": getattr(r, "vresults", {}).get("errors")} for r in live],
            "canaries_failed_as_required": len(canary_ok),
            "kani_harnesses": ([{k: v for k, v in hr.items() if k != "tail"} for hr in kani_part["results"]] if kani_part else []),
            "lost_anchors": lost_all,
            "undecided_reasons": problems,
            "failing_input_search": finder_result,
            "seed_sweep": sweep,
            "back_end": "verus/z3", "solver_ms": solver_ms,
            "known_findings_reported": [l for l in out_lines if l.startswith("KNOWN-FINDING")],
            "bounded_standins": standin_results,
        },
        "assumptions": sorted(trusted),
        "wall_s": round(time.time() - t0, 2),
        "violations": len([l for l in out_lines if l.startswith("VIOLATION")]),
    }
    extra = os.path.join(VERIF, "contracts", "notes", f"{pid}.json")
    if os.path.exists(extra):
        ev["coverage"].update(json.load(open(extra)))
    return rc, out_lines, ev


def write_evidence(pid, ev):
    os.makedirs(os.path.join(VERIF, "evidence"), exist_ok=True)
    with open(os.path.join(VERIF, "evidence", f"{pid}.json"), "w") as f:
        json.dump(ev, f, indent=1)


def main():
    import argparse
    ap = argparse.ArgumentParser()
    ap.add_argument("pid")
    ap.add_argument("--tier", default=os.environ.get("VERIF_TIER", "quick"))
    ap.add_argument("--replay")
    a = ap.parse_args()
    seed = int(os.environ.get("VERIF_SEED", "0") or 0)
    if a.replay:
        # replay: print the recorded violation, then run the concrete searches of this property again on the REAL code of the
        # current tree (they are deterministic for a fixed seed) and say whether a failing input is still found
        doc = json.load(open(a.replay))
        print(json.dumps(doc, indent=1))
        pid = doc.get("property", a.pid)
        if build_replay():
            seed = int(os.environ.get("VERIF_SEED", "0"))
            runs = [("search " + pid, run_replay(["search", pid, "any", "any", str(seed)], timeout=900))]
            for sname, sfn, swhat in BOUNDED_STANDINS.get(pid, []):
                runs.append(("standin " + sname, run_replay(["standin", sname, str(seed)], timeout=900)))
            still = [r for _, r in runs if r and r.get("found")]
            for name, r in runs:
                print(f"replay on real code (vreplay {name}):", json.dumps(r)[:1500])
            print("failing input reproduced on the current tree:", "yes" if still else "no (the recorded input came from a different tree, or the obligation has no concrete search)")
        else:
            print("replay binary could not be built")
        sys.exit(0)
    try:
        rc, lines, ev = check_property(a.pid, a.tier, seed)
    except (Undecided, EX.ExtractError, VS.SpecError) as e:
        print(f"UNDECIDED property={a.pid}: {e}")
        sys.exit(2)
    write_evidence(a.pid, ev)
    for l in lines:
        print(l)
    print(f"{a.pid}: obligations={ev['coverage']['obligations']} discharged={ev['coverage']['discharged']} "
          f"functions={len(ev['coverage']['functions_under_contract'])} wall={ev['wall_s']}s rc={rc}")
    sys.exit(rc)


if __name__ == "__main__":
    main()
