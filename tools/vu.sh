#!/bin/sh
# usage: tools/vu.sh UNIT [extra verus args]   -- assemble and run verus, human-readable output
U=$1; shift
cd /verif && python3 tools/extract.py $U || exit 2
( cd /verif/.cache/units && verus $U.rs --edition 2024 --multiple-errors 5 "$@" 2>&1 | python3 /verif/tools/vfilter.py )
