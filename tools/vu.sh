#!/bin/sh
# usage: tools/vu.sh UNIT [extra verus args]   -- assemble and run verus, human-readable output
# (works from any copy of this directory tree: paths are relative to the script)
U=$1; shift
ROOT=$(cd "$(dirname "$0")/.." && pwd)
cd "$ROOT" && python3 tools/extract.py $U || exit 2
( cd "$ROOT/.cache/units" && verus $U.rs --edition 2024 --multiple-errors 5 "$@" 2>&1 | python3 "$ROOT/tools/vfilter.py" )
