"""Parser for /verif/contracts/*.vspec (unit definitions + contracts).

Line-oriented.  Directives start with '%' in column 0; everything else belongs to the block
opened by the previous directive.

  %unit NAME                      start a unit (one per file)
  %features a b                   cargo features assumed ON for this unit (default: none)
  %variant SUFFIX a b             assemble the unit a second time with features a b ON (unit NAME__SUFFIX)
  %file MOD PATH                  source file (relative to /repo) indexed under module name MOD
  %rename a::b::C => D            token-sequence rename (R5/R7), applied before prefix stripping
  %method NAME => NEWNAME         R6: method-call rename, unit wide
  %prelude FILE                   prelude file (relative to /verif/prelude) pasted inside verus!{}
  %include FILE                   textual include of another vspec fragment (relative to contracts/)
  %item PATH [as-is]              copy an item (struct/enum/const/type/impl/trait/fn without contract)
  %derive PATH A, B               extra derives inserted on a struct/enum (marked insertion)
  %props C12 C13                  default properties for the following %fn blocks
  %fn PATH                        function under contract (home unit = this unit)
    %ret r                        name for the return value (default r)
    %attr #[...]                  attribute inserted before the fn
    %method NAME => NEWNAME       R6 rename only inside this fn
    %fnprops C12 C25              properties built-in obligations of this fn are reported under
    %spec                         requires/ensures/decreases text (labels: [C12.name] at clause start)
    %strict                       the clause exactly as the property states it (known-finding twin)
    %loop N [iter=NAME]           invariant/decreases text for the N-th loop (1-based, source order)
    %before N `anchor`            text inserted before the N-th occurrence of anchor tokens
    %after N `anchor`             text inserted after the statement containing that occurrence
    %wrap N `anchor`              two text blocks separated by a line '---': inserted before / after the anchor tokens
    %truncate N `e as T`          shorthand: wrap the cast in #[verifier::truncate] ( ... )
    %nocanary                     do not emit the reachability canary for this function
    %optional                     the function exists only in some builds (cfg): skipped silently where it does not
    %closure N [optional]         R20: `%fn PATH#TAG` is the N-th immediately-invoked closure `(|| -> T { .. })()` of PATH, lifted
                                  to a function NAME__TAG (lambda lifting); `optional`: absent in some builds (cfg)
    %sig (params)                 R20: the lifted function's parameter list (the captured variables)
    %deref a b                    R20: captured by mutable reference: uses inside the closure body become (*a), (*b)
    %callclosure N => CALL        R20: in the host function the N-th immediately-invoked closure is replaced by CALL
    %specialize PARAM => FUNC     R19: `%fn PATH#TAG` emits a copy NAME__TAG of the function in which the function-pointer
                                  parameter PARAM is dropped and every call `PARAM(...)` calls FUNC (one copy per call site's
                                  function argument; the call sites are redirected with %rename)
    %shared                       trait method declaration whose contract is included (identically) by several units
  %endfn
  %extern PATH                    external_body declaration using PATH's %spec from its home unit
  %raw                            verbatim Verus text (lemmas, spec fns) pasted at this position
  %endraw
"""
import os
import re
from dataclasses import dataclass, field


class SpecError(Exception):
    pass


@dataclass
class Hint:
    mode: str          # before / after
    occ: int
    anchor: str
    text: str = ""
    line: int = 0
    home_only: bool = False


@dataclass
class FnSpec:
    path: str
    unit: str
    ret: str = "r"
    attrs: list = field(default_factory=list)
    methods: dict = field(default_factory=dict)
    props: list = field(default_factory=list)
    spec: str = ""
    strict: str = None
    loops: dict = field(default_factory=dict)     # n -> (iter_name, text)
    hints: list = field(default_factory=list)
    nocanary: bool = False
    optional: bool = False
    specialize: dict = field(default_factory=dict)
    closure: int = 0
    closure_optional: bool = False
    sig: str = ""
    deref: list = field(default_factory=list)
    callclosure: dict = field(default_factory=dict)
    shared: bool = False
    src: str = ""
    line: int = 0


@dataclass
class Unit:
    name: str
    features: set = field(default_factory=set)
    rlimit: float = 0
    files: dict = field(default_factory=dict)
    renames: list = field(default_factory=list)
    methods: dict = field(default_factory=dict)
    preludes: list = field(default_factory=list)
    entries: list = field(default_factory=list)   # ('item', path, flags) ('fn', FnSpec) ('extern', path) ('raw', text)
    derives: dict = field(default_factory=dict)
    variants: list = field(default_factory=list)   # (suffix, extra features)
    variant_of: str = None
    src: str = ""


def _read_lines(path, seen=None):
    seen = seen or set()
    if path in seen:
        raise SpecError(f"include cycle at {path}")
    seen = seen | {path}
    out = []
    with open(path) as f:
        for n, line in enumerate(f, 1):
            line = line.rstrip("\n")
            if line.startswith("%include "):
                inc = os.path.join(os.path.dirname(path), line.split(None, 1)[1].strip())
                out.extend(_read_lines(inc, seen))
            else:
                out.append((path, n, line))
    return out


def parse_unit(path):
    lines = _read_lines(path)
    unit = None
    cur_fn = None
    cur_block = None   # (target, attr) where text is accumulated
    default_props = []
    raw = None
    raw_kind = ("raw",)
    lemma = None

    def close_block():
        nonlocal cur_block
        cur_block = None

    buf_target = None

    for (src, n, line) in lines:
        if raw is not None:
            if line.startswith("%endraw"):
                if raw_kind[0] == "raw":
                    unit.entries.append(("raw", "\n".join(raw)))
                else:
                    unit.entries.append(("implraw", raw_kind[1], "\n".join(raw)))
                raw = None
            else:
                raw.append(line)
            continue
        if lemma is not None:
            if line.startswith("%endlemma"):
                unit.entries.append(("lemma", lemma))
                lemma = None
            elif line.startswith("%spec"):
                lemma["part"] = "spec"
            elif line.startswith("%body"):
                lemma["part"] = "body"
            else:
                lemma[lemma["part"]] += line + "\n"
            continue
        if not line.startswith("%"):
            if line.startswith("# ") or line == "#":
                continue   # comment line (column 0)
            if buf_target is not None:
                buf_target(line)
            elif line.strip() and not line.lstrip().startswith("#"):
                raise SpecError(f"{src}:{n}: text outside any block: {line!r}")
            continue
        parts = line.split(None, 1)
        d = parts[0]
        arg = parts[1].strip() if len(parts) > 1 else ""
        # strip trailing comment on directive lines (not for %before/%after/%attr/%rename)
        if d in ("%unit",):
            unit = Unit(arg, src=path)
            buf_target = None
        elif unit is None:
            raise SpecError(f"{src}:{n}: directive before %unit")
        elif d == "%rlimit":
            unit.rlimit = float(arg)
        elif d == "%features":
            unit.features = set(arg.split())
        elif d == "%variant":
            # %variant SUFFIX feat1 feat2 : the same unit assembled again with extra cargo features
            # ON (C05: both builds must satisfy the same contracts); reported as unit NAME__SUFFIX
            ps = arg.split()
            unit.variants.append((ps[0], set(ps[1:])))
        elif d == "%file":
            m, p = arg.split()
            unit.files[m] = p
        elif d == "%rename":
            a, b = [x.strip() for x in arg.split("=>")]
            unit.renames.append((a, b))
        elif d == "%method":
            a, b = [x.strip() for x in arg.split("=>")]
            if cur_fn is not None:
                cur_fn.methods[a] = b
            else:
                unit.methods[a] = b
        elif d == "%prelude":
            unit.preludes.append(arg)
        elif d == "%item":
            ps = arg.split()
            unit.entries.append(("item", ps[0], ps[1:]))
            buf_target = None
        elif d == "%expect":
            # %expect PATH `tokens` : the item's text must start with these tokens (a fact a stub relies on)
            m = re.match(r"(\S+)\s+`(.*)`\s*$", arg)
            if not m:
                raise SpecError(f"{src}:{n}: bad %expect syntax")
            unit.entries.append(("expect", m.group(1), m.group(2)))
            buf_target = None
        elif d == "%sameitem":
            # %sameitem A B : source item A must be token-identical to item B, which the unit emits for both
            ps = arg.split()
            unit.entries.append(("sameitem", ps[0], ps[1]))
            buf_target = None
        elif d == "%derive":
            p, ds = arg.split(None, 1)
            unit.derives[p] = ds
        elif d == "%constspec":
            # %constspec PATH ensures-text : const whose initialiser calls an exec fn (R14)
            p, ds = arg.split(None, 1)
            unit.derives["const:" + p] = ds
        elif d == "%constproof":
            # %constproof PATH proof-text : proof block placed after the initialiser of an R14 exec const
            pth, ds = arg.split(None, 1)
            unit.derives["constproof:" + pth] = ds
        elif d == "%props":
            default_props = arg.split()
        elif d == "%fn":
            if cur_fn is not None:
                raise SpecError(f"{src}:{n}: %fn inside %fn (missing %endfn)")
            cur_fn = FnSpec(arg, unit.name, props=list(default_props), src=src, line=n)
            buf_target = None
        elif d == "%endfn":
            unit.entries.append(("fn", cur_fn))
            cur_fn = None
            buf_target = None
        elif d == "%extern":
            unit.entries.append(("extern", arg))
            buf_target = None
        elif d == "%bitflags":
            # %bitflags MOD : the bitflags! { struct N: T { const A = v; .. } } invocation of module MOD (R7)
            unit.entries.append(("bitflags", arg))
            buf_target = None
        elif d == "%lemma":
            # %lemma NAME C07 C11 : a proof fn over the contracts' specification functions whose
            # labelled ensures clauses are obligations of the listed properties
            #   <signature lines>  %spec <labelled clauses>  %body <proof body>  %endlemma
            ps = arg.split()
            lemma = {"name": ps[0], "props": ps[1:], "sig": "", "spec": "", "body": "", "part": "sig", "src": src, "line": n}
            buf_target = None
        elif d == "%raw":
            raw = []
            raw_kind = ("raw",)
        elif d == "%implraw":
            # %implraw IMPLPATH : verbatim text emitted inside the (re-assembled) impl block IMPLPATH
            raw = []
            raw_kind = ("implraw", arg)
        elif cur_fn is None:
            raise SpecError(f"{src}:{n}: {d} outside %fn")
        elif d == "%ret":
            cur_fn.ret = arg
        elif d == "%attr":
            cur_fn.attrs.append(arg)
        elif d == "%fnprops":
            cur_fn.props = arg.split()
        elif d == "%nocanary":
            cur_fn.nocanary = True
        elif d == "%optional":
            cur_fn.optional = True
        elif d == "%closure":
            ps = arg.split()
            cur_fn.closure = int(ps[0])
            cur_fn.closure_optional = "optional" in ps[1:]
        elif d == "%sig":
            cur_fn.sig = arg
        elif d == "%deref":
            cur_fn.deref = arg.split()
        elif d == "%callclosure":
            a, b = [x.strip() for x in arg.split("=>", 1)]
            cur_fn.callclosure[int(a)] = b
        elif d == "%specialize":
            a, b = [x.strip() for x in arg.split("=>")]
            cur_fn.specialize[a] = b
        elif d == "%shared":
            # a trait method declaration whose contract is included by several units (same text)
            cur_fn.shared = True
        elif d == "%spec":
            def add(l, f=cur_fn):
                f.spec += l + "\n"
            buf_target = add
        elif d == "%strict":
            cur_fn.strict = ""

            def add(l, f=cur_fn):
                f.strict += l + "\n"
            buf_target = add
        elif d == "%loop":
            ps = arg.split()
            k = int(ps[0])
            it = None
            for p in ps[1:]:
                if p.startswith("iter="):
                    it = p[5:]
            cur_fn.loops[k] = [it, ""]

            def add(l, f=cur_fn, k=k):
                f.loops[k][1] += l + "\n"
            buf_target = add
        elif d in ("%before", "%after", "%wrap", "%truncate", "%before@home", "%after@home", "%past"):
            m = re.match(r"(\d+)\s+`(.*)`\s*$", arg)
            if not m:
                raise SpecError(f"{src}:{n}: bad anchor syntax: {arg!r}")
            h = Hint(d[1:].replace("@home", ""), int(m.group(1)), m.group(2), line=n)
            h.home_only = d.endswith("@home")   # not spliced into the strict (as-stated) twin
            if h.mode == "truncate":
                # %truncate N `expr as T` : mark a deliberately truncating cast (Rust `as` truncates;
                # Verus leaves an out-of-range cast unspecified unless it is marked)
                h.mode = "wrap"
                h.text = "#[verifier::truncate] (\n---\n)\n"
            cur_fn.hints.append(h)

            def add(l, h=h):
                h.text += l + "\n"
            buf_target = add
        else:
            raise SpecError(f"{src}:{n}: unknown directive {d}")
    if cur_fn is not None:
        raise SpecError(f"{path}: unterminated %fn {cur_fn.path}")
    if unit is None:
        raise SpecError(f"{path}: no %unit")
    return unit


def load_all(contracts_dir):
    units = {}
    fnspecs = {}
    for fn in sorted(os.listdir(contracts_dir)):
        if not fn.endswith(".vspec"):
            continue
        u = parse_unit(os.path.join(contracts_dir, fn))
        if u.name in units:
            raise SpecError(f"duplicate unit {u.name}")
        units[u.name] = u
        for e in u.entries:
            if e[0] == "fn":
                if e[1].path in fnspecs:
                    if e[1].shared and fnspecs[e[1].path].shared and fnspecs[e[1].path].spec == e[1].spec:
                        continue
                    raise SpecError(f"function {e[1].path} has two home units")
                fnspecs[e[1].path] = e[1]
    import copy
    for u in list(units.values()):
        for (suffix, feats) in u.variants:
            v = copy.copy(u)
            v.name = u.name + "__" + suffix
            v.features = set(u.features) | set(feats)
            v.variants = []
            v.variant_of = u.name
            units[v.name] = v
    return units, fnspecs


LABEL_RE = re.compile(r"^\s*\[([A-Za-z0-9_. ]+)\]\s*")


def split_clauses(text):
    """Split spec text into (section, label-or-None, clause_text) preserving order.
    Sections: requires / ensures / decreases / invariant / invariant_except_break / ensures (loop).
    A clause starts at a line carrying a [label], or at a section keyword; unlabelled lines
    following belong to the current clause."""
    out = []
    section = None
    cur = None
    for line in text.split("\n"):
        s = line.strip()
        if not s or s.startswith("//"):
            continue
        m = re.match(r"^(requires|ensures|decreases|invariant_except_break|invariant|recommends|returns|no_unwind)\b\s*(.*)$", s)
        if m:
            section = m.group(1)
            cur = None
            s = m.group(2)
            if not s:
                continue
        lm = LABEL_RE.match(s)
        if lm:
            cur = [section, lm.group(1).split(), s[lm.end():]]
            out.append(cur)
        elif cur is None:
            cur = [section, None, s]
            out.append(cur)
        else:
            # continuation or new unlabelled clause: a previous clause ending with ',' ends it
            if cur[2].rstrip().endswith(",") and cur[1] is None:
                cur = [section, None, s]
                out.append(cur)
            elif cur[2].rstrip().endswith(",") and cur[1] is not None:
                cur = [section, None, s]
                out.append(cur)
            else:
                cur[2] += "\n" + s
    return out
