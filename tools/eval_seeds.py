#!/usr/bin/env python3
"""Apply each seeded change to /repo, run the check(s) of its property, undo.  Writes seeded/<id>/detect.json.
usage: tools/eval_seeds.py [seed ...]"""
import json, os, subprocess, sys
V = os.path.dirname(os.path.dirname(os.path.abspath(__file__)))
seeds = sys.argv[1:] or sorted(d for d in os.listdir(os.path.join(V, "seeded")) if os.path.isdir(os.path.join(V, "seeded", d)))
for s in seeds:
    d = os.path.join(V, "seeded", s)
    prop = s.split("_")[0]
    meta_p = os.path.join(d, "meta.json")
    props = [prop]
    if os.path.exists(meta_p):
        props = json.load(open(meta_p)).get("check_with", props)
    assert subprocess.run(["git", "-C", "/repo", "status", "--porcelain", "--untracked-files=no"], capture_output=True, text=True).stdout.strip() == "", "/repo not clean"
    # evidence files written while a seed is applied describe the seeded tree: keep the clean ones
    import shutil, tempfile
    ev_dir = os.path.join(V, "evidence")
    bak = tempfile.mkdtemp(prefix="evbak_")
    shutil.copytree(ev_dir, os.path.join(bak, "evidence"))
    a = subprocess.run(["git", "-C", "/repo", "apply", os.path.join(d, "patch.diff")], capture_output=True, text=True)
    res = {"seed": s, "applies": a.returncode == 0, "checks": {}}
    try:
        if a.returncode == 0:
            for p in props:
                r = subprocess.run([os.path.join(V, "check"), p, "--tier", "quick"], capture_output=True, text=True, cwd=V)
                res["checks"][p] = {"rc": r.returncode, "lines": [l for l in r.stdout.split("\n") if l.startswith(("VIOLATION", "UNDECIDED", "KNOWN"))][:6]}
    finally:
        subprocess.run(["git", "-C", "/repo", "checkout", "--", "."])
        # replay files written for the seeded tree are kept with the seed; the evidence directory is put back exactly
        keep = os.path.join(d, "replay")
        shutil.rmtree(keep, ignore_errors=True)
        rp = os.path.join(ev_dir, "replay")
        for f in (os.listdir(rp) if os.path.isdir(rp) else []):
            old = os.path.join(bak, "evidence", "replay", f)
            new = os.path.join(rp, f)
            if not os.path.exists(old) or open(old, "rb").read() != open(new, "rb").read():
                os.makedirs(keep, exist_ok=True)
                shutil.copy2(new, os.path.join(keep, f))
        shutil.rmtree(ev_dir)
        shutil.copytree(os.path.join(bak, "evidence"), ev_dir)
        shutil.rmtree(bak, ignore_errors=True)
    res["detected"] = any(c["rc"] == 1 for c in res["checks"].values())
    json.dump(res, open(os.path.join(d, "detect.json"), "w"), indent=1)
    print(s, "detected" if res["detected"] else "MISSED", {p: c["rc"] for p, c in res["checks"].items()})
    for c in res["checks"].values():
        for l in c["lines"]:
            if not l.startswith("KNOWN"):
                print("    ", l[:200])
