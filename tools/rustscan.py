"""Token-level Rust scanner: tokenizer + item indexer.

Not a parser for the whole language: it tokenises exactly (strings, raw strings, chars vs
lifetimes, nested comments) and then finds item boundaries by bracket matching.  Everything the
extractor copies is copied as a token range, so the text that reaches the verifier is the
source text.
"""
import re
from dataclasses import dataclass, field

WS, COMMENT, IDENT, LIFETIME, NUM, STR, CHAR, PUNCT = "ws comment ident lifetime num str char punct".split()

PUNCTS3 = ["<<=", ">>=", "...", "..="]
PUNCTS2 = ["::", "->", "=>", "==", "!=", "<=", ">=", "&&", "||", "+=", "-=", "*=", "/=", "%=",
           "^=", "&=", "|=", "<<", ">>", ".."]

_ident_re = re.compile(r"[A-Za-z_][A-Za-z0-9_]*")
_num_re = re.compile(r"(0x[0-9a-fA-F_]+|0b[01_]+|0o[0-7_]+|[0-9][0-9_]*(\.[0-9][0-9_]*)?([eE][+-]?[0-9_]+)?)([iu](8|16|32|64|128|size)|f32|f64)?")


@dataclass
class Tok:
    kind: str
    text: str
    pos: int
    line: int

    def __repr__(self):
        return f"<{self.kind}:{self.text!r}@{self.line}>"


class ScanError(Exception):
    pass


def tokenize(src):
    toks = []
    i = 0
    n = len(src)
    line = 1
    while i < n:
        c = src[i]
        start = i
        if c in " \t\r\n":
            while i < n and src[i] in " \t\r\n":
                i += 1
            kind = WS
        elif src.startswith("//", i):
            while i < n and src[i] != "\n":
                i += 1
            kind = COMMENT
        elif src.startswith("/*", i):
            depth = 0
            while i < n:
                if src.startswith("/*", i):
                    depth += 1
                    i += 2
                elif src.startswith("*/", i):
                    depth -= 1
                    i += 2
                    if depth == 0:
                        break
                else:
                    i += 1
            if depth != 0:
                raise ScanError(f"unterminated block comment at line {line}")
            kind = COMMENT
        elif c == '"' or (c == "b" and src.startswith('b"', i)) or (c == "c" and src.startswith('c"', i)):
            if c != '"':
                i += 1
            i += 1
            while i < n and src[i] != '"':
                if src[i] == "\\":
                    i += 1
                i += 1
            i += 1
            kind = STR
        elif (c == "r" and re.match(r'r#*"', src[i:i + 20])) or (c == "b" and re.match(r'br#*"', src[i:i + 20])):
            m = re.match(r'b?r(#*)"', src[i:i + 40])
            hashes = m.group(1)
            i += len(m.group(0))
            endpat = '"' + hashes
            j = src.find(endpat, i)
            if j < 0:
                raise ScanError(f"unterminated raw string at line {line}")
            i = j + len(endpat)
            kind = STR
        elif c == "'" or (c == "b" and src.startswith("b'", i)):
            j = i + (2 if c == "b" else 1)
            # lifetime: 'ident not followed by '
            m = _ident_re.match(src, j)
            if c == "'" and m and not src.startswith("'", m.end()):
                i = m.end()
                kind = LIFETIME
            else:
                # char literal
                if src[j] == "\\":
                    j += 2
                    # \x41, \u{...}
                    while j < n and src[j] != "'":
                        j += 1
                else:
                    j += 1
                if j >= n or src[j] != "'":
                    raise ScanError(f"bad char literal at line {line}")
                i = j + 1
                kind = CHAR
        elif c.isalpha() or c == "_":
            m = _ident_re.match(src, i)
            i = m.end()
            # raw identifiers r#foo
            kind = IDENT
        elif c.isdigit():
            m = _num_re.match(src, i)
            i = m.end()
            # "1..2" : don't swallow the range dots
            t = src[start:i]
            if ".." in src[start:i + 1] and "." in t:
                # e.g. "0..8" matched "0." ? the regex requires digit after '.', so fine
                pass
            kind = NUM
        else:
            for p in PUNCTS3:
                if src.startswith(p, i):
                    i += 3
                    break
            else:
                for p in PUNCTS2:
                    if src.startswith(p, i):
                        i += 2
                        break
                else:
                    i += 1
            kind = PUNCT
        text = src[start:i]
        toks.append(Tok(kind, text, start, line))
        line += text.count("\n")
    return toks


def significant(toks):
    """indices of non-trivia tokens"""
    return [k for k, t in enumerate(toks) if t.kind not in (WS, COMMENT)]


OPEN = {"(": ")", "[": "]", "{": "}"}
CLOSE = {")": "(", "]": "[", "}": "{"}


class TokView:
    """A view over the significant tokens of a file, with bracket matching."""

    def __init__(self, src, path="<mem>"):
        self.path = path
        self.src = src
        self.all = tokenize(src)
        self.sig = significant(self.all)      # sig index -> all index
        self.t = [self.all[k] for k in self.sig]
        self.match = {}
        stack = []
        for i, t in enumerate(self.t):
            if t.kind == PUNCT and t.text in OPEN:
                stack.append(i)
            elif t.kind == PUNCT and t.text in CLOSE:
                if not stack or self.t[stack[-1]].text != CLOSE[t.text]:
                    raise ScanError(f"{path}: unbalanced {t.text!r} at line {t.line}")
                j = stack.pop()
                self.match[j] = i
                self.match[i] = j
        if stack:
            raise ScanError(f"{path}: unclosed bracket at line {self.t[stack[-1]].line}")

    def text(self, i):
        return self.t[i].text

    def is_p(self, i, s):
        return i < len(self.t) and self.t[i].kind == PUNCT and self.t[i].text == s

    def is_id(self, i, s=None):
        return i < len(self.t) and self.t[i].kind == IDENT and (s is None or self.t[i].text == s)

    def render(self, a, b):
        """source text of significant tokens [a,b) including interior trivia"""
        if a >= b:
            return ""
        return self.src[self.t[a].pos: self.t[b - 1].pos + len(self.t[b - 1].text)]


@dataclass
class Item:
    kind: str            # fn struct enum impl trait const static type use mod macro union
    name: str
    start: int           # first token (attrs included)
    head: int            # first token after attrs
    end: int             # one past last token
    attrs: list = field(default_factory=list)   # list of (a,b) token ranges
    body: tuple = None   # (open_brace_idx, close_brace_idx) for fn/impl/trait/mod/struct/enum
    kw: int = None       # index of the kind keyword
    children: list = field(default_factory=list)
    impl_type: str = None
    impl_trait: str = None
    parent: object = None


ITEM_KW = {"fn", "struct", "enum", "impl", "trait", "const", "static", "type", "use", "mod", "union", "macro_rules"}
QUALS = {"pub", "const", "async", "unsafe", "extern", "default"}


def skip_attrs(v, i, end):
    attrs = []
    while i < end and v.is_p(i, "#"):
        j = i + 1
        if v.is_p(j, "!"):
            j += 1
        if not v.is_p(j, "["):
            break
        k = v.match[j]
        attrs.append((i, k + 1))
        i = k + 1
    return i, attrs


def find_item_end(v, i, end, stop_on_brace):
    """from i scan forward to the first ';' (depth 0) or, if stop_on_brace, first '{' at depth 0.
    returns (idx_of_terminator)"""
    j = i
    while j < end:
        t = v.t[j]
        if t.kind == PUNCT:
            if t.text == ";":
                return j
            if t.text == "{":
                if stop_on_brace:
                    return j
                j = v.match[j]
            elif t.text in "([":
                j = v.match[j]
        j += 1
    raise ScanError(f"{v.path}: item starting at line {v.t[i].line} has no end")


def parse_items(v, i, end, parent=None):
    items = []
    while i < end:
        start = i
        i, attrs = skip_attrs(v, i, end)
        if i >= end:
            break
        head = i
        # visibility / qualifiers
        j = i
        while j < end and v.t[j].kind == IDENT and v.t[j].text in QUALS:
            if v.text(j) == "const" and not (v.is_id(j + 1, "fn") or v.is_id(j + 1, "unsafe") or v.is_id(j + 1, "async") or v.is_id(j + 1, "extern")):
                break
            if v.text(j) == "pub" and v.is_p(j + 1, "("):
                j = v.match[j + 1] + 1
                continue
            if v.text(j) == "extern" and j + 1 < end and v.t[j + 1].kind == STR:
                j += 2
                continue
            j += 1
        if j >= end:
            raise ScanError(f"{v.path}: dangling qualifiers at line {v.t[head].line}")
        t = v.t[j]
        kw = j
        if t.kind == IDENT and t.text in ITEM_KW:
            kind = t.text
            if kind == "fn":
                name = v.text(j + 1)
                term = find_item_end(v, j, end, True)
                if v.is_p(term, ";"):
                    it = Item("fn", name, start, head, term + 1, attrs, None, kw)
                else:
                    it = Item("fn", name, start, head, v.match[term] + 1, attrs, (term, v.match[term]), kw)
            elif kind in ("struct", "enum", "union", "trait", "mod"):
                name = v.text(j + 1)
                term = find_item_end(v, j, end, True)
                if v.is_p(term, ";"):
                    it = Item(kind, name, start, head, term + 1, attrs, None, kw)
                else:
                    close = v.match[term]
                    it = Item(kind, name, start, head, close + 1, attrs, (term, close), kw)
                    if kind in ("trait", "mod"):
                        it.children = parse_items(v, term + 1, close, it)
            elif kind == "impl":
                term = find_item_end(v, j, end, True)
                close = v.match[term]
                # header analysis: impl<...> [Trait for] Type<...> [where ...]
                h = j + 1
                if v.is_p(h, "<"):
                    depth = 0
                    while True:
                        if v.is_p(h, "<"):
                            depth += 1
                        elif v.is_p(h, ">"):
                            depth -= 1
                            if depth == 0:
                                h += 1
                                break
                        elif v.is_p(h, ">>"):
                            depth -= 2
                            if depth <= 0:
                                h += 1
                                break
                        h += 1
                hdr = [v.text(k) for k in range(h, term)]
                # cut where-clause
                if "where" in hdr:
                    hdr = hdr[:hdr.index("where")]
                trait = None
                if "for" in hdr:
                    k = hdr.index("for")
                    trait = _last_path_seg(hdr[:k])
                    ty = _last_path_seg(hdr[k + 1:])
                else:
                    ty = _last_path_seg(hdr)
                name = ty if trait is None else f"{ty}@{trait}"
                it = Item("impl", name, start, head, close + 1, attrs, (term, close), kw)
                it.impl_type, it.impl_trait = ty, trait
                it.children = parse_items(v, term + 1, close, it)
            elif kind == "macro_rules":
                # macro_rules! name { ... }
                name = v.text(j + 2)
                b = j + 3
                close = v.match[b]
                e = close + 1
                if v.is_p(e, ";"):
                    e += 1
                it = Item("macro", name, start, head, e, attrs, (b, close), kw)
            else:  # const static type use
                name = v.text(j + 1)
                if kind == "static" and name == "mut":
                    name = v.text(j + 2)
                term = find_item_end(v, j, end, False)
                it = Item(kind, name, start, head, term + 1, attrs, None, kw)
        elif t.kind == IDENT and v.is_p(j + 1, "!"):
            # macro invocation item: name! { ... } or name!(...);
            b = j + 2
            if v.t[b].kind == IDENT:  # macro_name! ident { }
                b += 1
            close = v.match[b]
            e = close + 1
            if v.is_p(e, ";"):
                e += 1
            it = Item("macro", t.text, start, head, e, attrs, (b, close), kw)
        elif t.kind == IDENT and _path_macro(v, j):
            k = _path_macro(v, j)
            close = v.match[k]
            e = close + 1
            if v.is_p(e, ";"):
                e += 1
            it = Item("macro", v.text(k - 2), start, head, e, attrs, (k, close), kw)
        else:
            raise ScanError(f"{v.path}: cannot classify item at line {t.line}: {t.text!r}")
        it.parent = parent
        items.append(it)
        i = it.end
    return items


def _path_macro(v, j):
    """a::b::name! { } -> index of the opening bracket, else None"""
    k = j
    while v.is_id(k) and v.is_p(k + 1, "::"):
        k += 2
    if v.is_id(k) and v.is_p(k + 1, "!") and k + 2 < len(v.t) and v.t[k + 2].text in OPEN:
        return k + 2
    return None


def _last_path_seg(toks):
    """['io','::','Write'] -> 'Write'; ['LimitedWriter','<','W','>'] -> 'LimitedWriter';
    ['&','[','u8',']'] -> '&[u8]'"""
    depth = 0
    segs = []
    for t in toks:
        if t == "<":
            depth += 1
        elif t == ">":
            depth -= 1
        elif t == ">>":
            depth -= 2
        elif depth == 0:
            segs.append(t)
    idents = [s for s in segs if re.match(r"[A-Za-z_]", s) and s not in ("dyn", "mut")]
    if idents and all((s in ("::",) or re.match(r"[A-Za-z_]", s)) for s in segs):
        return idents[-1]
    return "".join(segs)


class FileIndex:
    def __init__(self, path, modname):
        with open(path) as f:
            src = f.read()
        self.v = TokView(src, path)
        self.mod = modname
        self.items = parse_items(self.v, 0, len(self.v.t))
        self.by_path = {}
        self._index(self.items, modname)

    def _index(self, items, prefix):
        for it in items:
            if it.kind == "use":
                continue
            p = f"{prefix}::{it.name}"
            self.by_path.setdefault(p, []).append(it)
            if it.kind in ("impl", "trait", "mod"):
                self._index(it.children, p)

    def lookup(self, path):
        return self.by_path.get(path, [])


if __name__ == "__main__":
    import sys
    fi = FileIndex(sys.argv[1], sys.argv[2] if len(sys.argv) > 2 else "m")
    for p, its in fi.by_path.items():
        for it in its:
            print(p, it.kind, fi.v.t[it.start].line, fi.v.t[it.end - 1].line)
