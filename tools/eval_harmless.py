#!/usr/bin/env python3
"""Apply each behaviour-preserving change in harmless/<name>/patch.diff to /repo, run EVERY claimed property's quick check,
undo.  A check that exits 1 on such a tree is a false alarm; exit 2 (UNDECIDED: a contract file has to follow the edit) is
allowed.  Writes harmless/<name>/result.json.   usage: tools/eval_harmless.py [name ...]"""
import json, os, shutil, subprocess, sys, tempfile
V = os.path.dirname(os.path.dirname(os.path.abspath(__file__)))
H = os.path.join(V, "harmless")
names = sys.argv[1:] or sorted(d for d in os.listdir(H) if os.path.isdir(os.path.join(H, d)))
props = sorted({c["property_id"] for c in json.load(open(os.path.join(V, "MANIFEST.json")))["checks"]})
for s in names:
    d = os.path.join(H, s)
    assert subprocess.run(["git", "-C", "/repo", "status", "--porcelain", "--untracked-files=no"], capture_output=True, text=True).stdout.strip() == "", "/repo not clean"
    ev_dir = os.path.join(V, "evidence")
    bak = tempfile.mkdtemp(prefix="evbak_")
    shutil.copytree(ev_dir, os.path.join(bak, "evidence"))
    a = subprocess.run(["git", "-C", "/repo", "apply", os.path.join(d, "patch.diff")], capture_output=True, text=True)
    res = {"change": s, "applies": a.returncode == 0, "checks": {}}
    try:
        if a.returncode == 0:
            for p in props:
                r = subprocess.run([os.path.join(V, "check"), p, "--tier", "quick"], capture_output=True, text=True, cwd=V)
                res["checks"][p] = {"rc": r.returncode, "lines": [l[:300] for l in r.stdout.split("\n") if l.startswith(("VIOLATION", "UNDECIDED"))][:6]}
    finally:
        subprocess.run(["git", "-C", "/repo", "checkout", "--", "."])
        shutil.rmtree(ev_dir)
        shutil.copytree(os.path.join(bak, "evidence"), ev_dir)
        shutil.rmtree(bak, ignore_errors=True)
    res["false_alarms"] = sorted(p for p, c in res["checks"].items() if c["rc"] == 1)
    res["undecided"] = sorted(p for p, c in res["checks"].items() if c["rc"] not in (0, 1))
    res["passed"] = sorted(p for p, c in res["checks"].items() if c["rc"] == 0)
    json.dump(res, open(os.path.join(d, "result.json"), "w"), indent=1)
    print(s, "FALSE-ALARM " + ",".join(res["false_alarms"]) if res["false_alarms"] else "no alarm",
          "pass=%d undecided=%d" % (len(res["passed"]), len(res["undecided"])), res["undecided"])
    for p in res["false_alarms"] + res["undecided"]:
        for l in res["checks"][p]["lines"][:2]:
            print("    ", p, l[:220])
