// ---------------------------------------------------------------------------------------------
// Dialect vocabulary shared by the interpreter unit (RUN) and the dispatch unit (DIALECT)
// ---------------------------------------------------------------------------------------------

/// allocator grew (or stayed): old nodes and old checkpoints keep their meaning
pub open spec fn alloc_grows(n: &Allocator, o: &Allocator) -> bool {
    &&& n.inv()
    &&& n.heap_limit == o.heap_limit
    &&& forall|x: NodePtr| #[trigger] o.valid(x) ==> n.valid(x) && n.tree(x) == o.tree(x)
    &&& forall|c2: &TransparentCheckpoint| #[trigger] o.consistent(c2) ==> n.consistent(c2)
}


/// what every operator call guarantees to the interpreter (the Dialect::op contract)
pub open spec fn op_generic(o: &Allocator, n: &Allocator, r: Response) -> bool {
    &&& alloc_grows(n, o)
    &&& (r is Ok ==> n.valid(r->Ok_0.1) && r->Ok_0.0 <= 0x4000_0000_0000_0000)
    &&& (r is Err ==> !(r->Err_0 is InternalError))
    &&& (o.capped() ==> n.capped())
}
