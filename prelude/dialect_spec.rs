// ---------------------------------------------------------------------------------------------
// Dialect vocabulary shared by the interpreter unit (RUN) and the dispatch unit (DIALECT)
// ---------------------------------------------------------------------------------------------

/// what every operator call guarantees to the interpreter (the Dialect::op contract)
pub open spec fn op_generic(o: &Allocator, n: &Allocator, r: Response) -> bool {
    &&& alloc_grows(n, o)
    &&& (r is Ok ==> n.valid(r->Ok_0.1) && r->Ok_0.0 <= 0x4000_0100_0000_0000)
    &&& (r is Err ==> !(r->Err_0 is InternalError))
    &&& (o.capped() ==> n.capped())
}

/// an operator that left the allocator unchanged meets the allocator part of the generic contract
pub proof fn lemma_same_state_generic(o: &Allocator, n: &Allocator)
    requires
        o.inv(),
        n.same_state(o),
    ensures
        n.inv(),
        alloc_grows(n, o),
        o.capped() ==> n.capped(),
{
    assert forall|i: int| 0 <= i < n.pair_vec@.len() implies #[trigger] n.pair_ok(i) by {
        assert(o.pair_ok(i));
    }
    assert(n.extends(o));
    lemma_extends_frame(n, o);
    assert forall|c2: &TransparentCheckpoint| #[trigger] o.consistent(c2) implies n.consistent(c2) by {}
}
