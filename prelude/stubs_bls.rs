// R7: chia_bls group operations.  The group elements are opaque; NOTHING is assumed about the operations except that
// they are total (C32 is about the primitives).  What the BLS operators' contracts pin down is the repository's own
// code: argument checking, cost accounting, budget checks, allocation of the result.
impl G1Element {
    #[verifier::external_body]
    pub fn default() -> (r: G1Element) {
        unimplemented!()
    }

    /// R6: `total += &point` made a call
    #[verifier::external_body]
    pub fn add_assign_pt(&mut self, o: &G1Element) {
        unimplemented!()
    }

    /// R6: `total -= &point` made a call
    #[verifier::external_body]
    pub fn sub_assign_pt(&mut self, o: &G1Element) {
        unimplemented!()
    }

    #[verifier::external_body]
    pub fn scalar_multiply(&mut self, s: &[u8]) {
        unimplemented!()
    }

    #[verifier::external_body]
    pub fn from_integer(s: &[u8]) -> (r: G1Element) {
        unimplemented!()
    }
}

impl G2Element {
    #[verifier::external_body]
    pub fn default() -> (r: G2Element) {
        unimplemented!()
    }

    #[verifier::external_body]
    pub fn add_assign_pt(&mut self, o: &G2Element) {
        unimplemented!()
    }

    #[verifier::external_body]
    pub fn sub_assign_pt(&mut self, o: &G2Element) {
        unimplemented!()
    }

    #[verifier::external_body]
    pub fn scalar_multiply(&mut self, s: &[u8]) {
        unimplemented!()
    }
}

pub type PublicKey = G1Element;

#[verifier::external_body]
pub fn hash_to_g1_with_dst(m: &[u8], d: &[u8]) -> (r: G1Element) {
    unimplemented!()
}

#[verifier::external_body]
pub fn hash_to_g2_with_dst(m: &[u8], d: &[u8]) -> (r: G2Element) {
    unimplemented!()
}

#[verifier::external_body]
pub fn aggregate_pairing(items: Vec<(G1Element, G2Element)>) -> (r: bool) {
    unimplemented!()
}

#[verifier::external_body]
pub fn aggregate_verify<'a>(sig: &G2Element, items: Vec<(PublicKey, Atom<'a>)>) -> (r: bool) {
    unimplemented!()
}

/// R7 stub of op_utils::mod_group_order (lazy_static group order, BigInt::mod_floor): total
#[verifier::external_body]
pub fn mod_group_order(n: Number) -> (r: Number) {
    unimplemented!()
}

/// R6: `n.to_bytes_be().1` (magnitude bytes of a bignum) made a call
#[verifier::external_body]
pub fn magnitude_bytes(n: &Number) -> (r: Vec<u8>) {
    unimplemented!()
}

/// R7: the default domain separation tags (43-byte literals in bls_ops.rs)
#[verifier::external_body]
pub fn default_dst_g1<'a>() -> (r: Atom<'a>)
    ensures
        atom_view(r).len() == 43,
{
    unimplemented!()
}

#[verifier::external_body]
pub fn default_dst_g2<'a>() -> (r: Atom<'a>)
    ensures
        atom_view(r).len() == 43,
{
    unimplemented!()
}

/// a 48-byte atom that decodes as a G1 point / a 96-byte atom that decodes as a G2 point
pub open spec fn is_g1(t: Tree) -> bool {
    t is Atom && t.bytes().len() == 48 && valid_g1(t.bytes())
}

pub open spec fn is_g2(t: Tree) -> bool {
    t is Atom && t.bytes().len() == 96 && valid_g2(t.bytes())
}

pub open spec fn all_g1(items: Seq<Tree>) -> bool {
    forall|i: int| 0 <= i < items.len() ==> is_g1(#[trigger] items[i])
}

pub open spec fn all_g2(items: Seq<Tree>) -> bool {
    forall|i: int| 0 <= i < items.len() ==> is_g2(#[trigger] items[i])
}
