// ---------------------------------------------------------------------------------------------
// Stubs with ASSUMED contracts for things outside /repo (DESIGN.md 2.3, rules R6/R7).
// Every `external_body` here is listed in contracts/ASSUMPTIONS.tsv.
// ---------------------------------------------------------------------------------------------
use std::collections::HashSet;

// the crate is only built for 64-bit targets in the suite; usize == u64 (listed assumption)
global size_of usize == 8;

/// Rust language guarantee: no object is larger than isize::MAX bytes (listed assumption)
#[verifier::external_body]
pub proof fn axiom_slice_len_u8(s: &[u8])
    ensures
        s@.len() <= 0x7fff_ffff_ffff_ffff,
{
}

// R6: integer intrinsics Verus has no specification for --------------------------------------
pub trait U32Be: Sized {
    fn to_be_bytes_u32(self) -> [u8; 4];
}

impl U32Be for u32 {
    #[verifier::external_body]
    fn to_be_bytes_u32(self) -> (r: [u8; 4])
        ensures
            r@ =~= seq![(self >> 24) as u8, (self >> 16) as u8, (self >> 8) as u8, self as u8],
    {
        self.to_be_bytes()
    }
}

pub trait U64Be: Sized {
    fn to_be_bytes_u64(self) -> [u8; 8];
}

impl U64Be for u64 {
    #[verifier::external_body]
    fn to_be_bytes_u64(self) -> (r: [u8; 8])
        ensures
            r@ =~= seq![
                (self >> 56) as u8,
                (self >> 48) as u8,
                (self >> 40) as u8,
                (self >> 32) as u8,
                (self >> 24) as u8,
                (self >> 16) as u8,
                (self >> 8) as u8,
                self as u8,
            ],
    {
        self.to_be_bytes()
    }
}

pub trait I64Be: Sized {
    fn to_be_bytes_i64(self) -> [u8; 8];
}

impl I64Be for i64 {
    #[verifier::external_body]
    fn to_be_bytes_i64(self) -> (r: [u8; 8])
        ensures
            r@ =~= seq![
                ((self as u64) >> 56) as u8,
                ((self as u64) >> 48) as u8,
                ((self as u64) >> 40) as u8,
                ((self as u64) >> 32) as u8,
                ((self as u64) >> 24) as u8,
                ((self as u64) >> 16) as u8,
                ((self as u64) >> 8) as u8,
                (self as u64) as u8,
            ],
    {
        self.to_be_bytes()
    }
}

// R7: bignum libraries.  One abstract integer value per object; both libraries are given the
// same specification functions (this IS the library-agreement assumption of C06).
#[verifier::external_body]
pub struct Number {
    _p: core::marker::PhantomData<()>,
}

#[verifier::external_body]
pub struct Malachite {
    _p: core::marker::PhantomData<()>,
}

impl Number {
    pub uninterp spec fn val(&self) -> int;

    #[verifier::external_body]
    pub fn from_signed_bytes_be(v: &[u8]) -> (r: Number)
        ensures
            r.val() == signed_be(v@),
    {
        unimplemented!()
    }

    /// assumed: a two's-complement encoding of the value, at least one byte long; minimal for negative
    /// values (no redundant 0xff); for non-negative values redundant leading zero bytes are allowed
    /// (both libraries emit [0] for zero) -- stripping them is the repo's job and is verified
    #[verifier::external_body]
    pub fn to_signed_bytes_be(&self) -> (r: Vec<u8>)
        ensures
            r@.len() >= 1,
            signed_be(r@) == self.val(),
            r@.len() < 0x1_0000_0000,
            self.val() < 0 ==> canonical_int(r@),
            self.val() >= 0 ==> r@[0] < 0x80,
    {
        unimplemented!()
    }

    #[verifier::external_body]
    pub fn to_u32(&self) -> (r: Option<u32>)
        ensures
            r is Some <==> 0 <= self.val() <= u32::MAX,
            r is Some ==> r->0 as int == self.val(),
    {
        unimplemented!()
    }

    #[verifier::external_body]
    pub fn from_u32(v: u32) -> (r: Number)
        ensures
            r.val() == v as int,
    {
        unimplemented!()
    }

    #[verifier::external_body]
    pub fn zero() -> (r: Number)
        ensures
            r.val() == 0,
    {
        unimplemented!()
    }
}

impl Malachite {
    pub uninterp spec fn val(&self) -> int;

    #[verifier::external_body]
    pub fn from_signed_bytes_be(v: &[u8]) -> (r: Malachite)
        ensures
            r.val() == signed_be(v@),
    {
        unimplemented!()
    }

    #[verifier::external_body]
    pub fn to_signed_bytes_be(&self) -> (r: Vec<u8>)
        ensures
            r@.len() >= 1,
            signed_be(r@) == self.val(),
            r@.len() < 0x1_0000_0000,
            self.val() < 0 ==> canonical_int(r@),
            self.val() >= 0 ==> r@[0] < 0x80,
    {
        unimplemented!()
    }

    #[verifier::external_body]
    pub fn to_u32(&self) -> (r: Option<u32>)
        ensures
            r is Some <==> 0 <= self.val() <= u32::MAX,
            r is Some ==> r->0 as int == self.val(),
    {
        unimplemented!()
    }

    #[verifier::external_body]
    pub fn from_u32(v: u32) -> (r: Malachite)
        ensures
            r.val() == v as int,
    {
        unimplemented!()
    }

    #[verifier::external_body]
    pub fn zero() -> (r: Malachite)
        ensures
            r.val() == 0,
    {
        unimplemented!()
    }
}

// R7: BLS points.  from_bytes is a deterministic partial function; to_bytes its inverse.
pub uninterp spec fn valid_g1(b: Seq<u8>) -> bool;

pub uninterp spec fn valid_g2(b: Seq<u8>) -> bool;

#[verifier::external_body]
pub struct G1Element {
    _p: core::marker::PhantomData<()>,
}

#[verifier::external_body]
pub struct G2Element {
    _p: core::marker::PhantomData<()>,
}

#[verifier::external_body]
pub struct BlsError {
    _p: core::marker::PhantomData<()>,
}

impl G1Element {
    pub uninterp spec fn enc(&self) -> Seq<u8>;

    #[verifier::external_body]
    pub fn from_bytes(b: &[u8; 48]) -> (r: core::result::Result<G1Element, BlsError>)
        ensures
            r is Ok <==> valid_g1(b@),
            r is Ok ==> r->Ok_0.enc() == b@,
    {
        unimplemented!()
    }

    #[verifier::external_body]
    pub fn to_bytes(&self) -> (r: [u8; 48])
        ensures
            r@ == self.enc(),
            valid_g1(r@),
    {
        unimplemented!()
    }
}

impl G2Element {
    pub uninterp spec fn enc(&self) -> Seq<u8>;

    #[verifier::external_body]
    pub fn from_bytes(b: &[u8; 96]) -> (r: core::result::Result<G2Element, BlsError>)
        ensures
            r is Ok <==> valid_g2(b@),
            r is Ok ==> r->Ok_0.enc() == b@,
    {
        unimplemented!()
    }

    #[verifier::external_body]
    pub fn to_bytes(&self) -> (r: [u8; 96])
        ensures
            r@ == self.enc(),
            valid_g2(r@),
    {
        unimplemented!()
    }
}

// R6: Vec::extend_from_within has no vstd specification
#[verifier::external_body]
pub fn vec_extend_from_within(v: &mut Vec<u8>, r: core::ops::Range<usize>)
    requires
        r.start <= r.end <= old(v)@.len(),
    ensures
        final(v)@ =~= old(v)@ + old(v)@.subrange(r.start as int, r.end as int),
{
    v.extend_from_within(r)
}

pub trait VecU8Ext {
    spec fn as_seq(&self) -> Seq<u8>;

    fn extend_from_within_v(&mut self, r: core::ops::Range<usize>)
        requires
            r.start <= r.end <= old(self).as_seq().len(),
        ensures
            final(self).as_seq() =~= old(self).as_seq() + old(self).as_seq().subrange(r.start as int, r.end as int),
    ;
}

impl VecU8Ext for Vec<u8> {
    spec fn as_seq(&self) -> Seq<u8> {
        self@
    }

    fn extend_from_within_v(&mut self, r: core::ops::Range<usize>) {
        vec_extend_from_within(self, r)
    }
}
