// ---------------------------------------------------------------------------------------------
// Classic CLVM deserialization: the grammar as a recursive specification (C15 C16 C22), and the
// shared two-stack parsing machine of node_from_stream / tree_hash_from_stream expressed through it.
// ---------------------------------------------------------------------------------------------

/// one atom starting at position p (s[p] is not the cons marker): its bytes and the next position
pub open spec fn dec_atom(s: Seq<u8>, p: nat) -> Option<(Seq<u8>, nat)> {
    if p >= s.len() {
        None
    } else {
        let b = s[p as int];
        if b <= 0x7f {
            Some((seq![b], p + 1))
        } else if b == 0x80 {
            Some((Seq::<u8>::empty(), p + 1))
        } else {
            let k = prefix_len_of(b);
            if k > 6 || p + k > s.len() {
                None
            } else {
                let size = dec_size(b, s.subrange(p as int + 1, (p + k) as int));
                if size >= 0x4_0000_0000 || p + k + size > s.len() {
                    None
                } else {
                    Some((s.subrange((p + k) as int, (p + k + size) as int), (p + k + size) as nat))
                }
            }
        }
    }
}

/// one tree starting at position p: the tree and the next position
pub open spec fn dec_tree(s: Seq<u8>, p: nat) -> Option<(Tree, nat)>
    decreases s.len() - p,
{
    if p >= s.len() {
        None
    } else if s[p as int] == 0xff {
        match dec_tree(s, p + 1) {
            None => None,
            Some((l, p1)) => {
                if p1 <= p || p1 > s.len() {
                    None
                } else {
                    match dec_tree(s, p1) {
                        None => None,
                        Some((r, p2)) => Some((Tree::Pair(Box::new(l), Box::new(r)), p2)),
                    }
                }
            },
        }
    } else {
        match dec_atom(s, p) {
            None => None,
            Some((b, p1)) => Some((Tree::Atom(b), p1)),
        }
    }
}

/// decoding consumes at least one byte and stays inside the input
pub proof fn lemma_dec_tree_progress(s: Seq<u8>, p: nat)
    ensures
        dec_tree(s, p) is Some ==> p < (dec_tree(s, p)->0).1 <= s.len(),
    decreases s.len() - p,
{
    if p < s.len() {
        if s[p as int] == 0xff {
            lemma_dec_tree_progress(s, p + 1);
            if dec_tree(s, p + 1) is Some {
                let p1 = (dec_tree(s, p + 1)->0).1;
                if p1 > p && p1 <= s.len() {
                    lemma_dec_tree_progress(s, p1);
                }
            }
        } else {
            lemma_prefix_len_pos(s[p as int]);
        }
    }
}

/// the parsing machine's pending operations
pub enum POp {
    SExp,
    Cons,
}

/// what the machine computes from a state (ops read from the top = last element)
pub open spec fn run_ops(ops: Seq<POp>, s: Seq<u8>, p: nat, vals: Seq<Tree>) -> Option<(Seq<Tree>, nat)>
    decreases ops.len(),
{
    if ops.len() == 0 {
        Some((vals, p))
    } else {
        let rest = ops.drop_last();
        match ops.last() {
            POp::SExp => match dec_tree(s, p) {
                None => None,
                Some((t, p1)) => run_ops(rest, s, p1, vals.push(t)),
            },
            POp::Cons => {
                if vals.len() < 2 {
                    None
                } else {
                    run_ops(rest, s, p, vals.drop_last().drop_last().push(Tree::Pair(Box::new(vals[vals.len() - 2]), Box::new(vals[vals.len() - 1]))))
                }
            },
        }
    }
}

/// stack discipline of the machine: every Cons finds two values, and exactly one value remains
pub open spec fn pdisc(ops: Seq<POp>, nvals: int) -> bool
    decreases ops.len(),
{
    if ops.len() == 0 {
        nvals == 1
    } else {
        match ops.last() {
            POp::SExp => pdisc(ops.drop_last(), nvals + 1),
            POp::Cons => nvals >= 2 && pdisc(ops.drop_last(), nvals - 1),
        }
    }
}

pub proof fn lemma_run_push(ops: Seq<POp>, op: POp, s: Seq<u8>, p: nat, vals: Seq<Tree>)
    ensures
        run_ops(ops.push(op), s, p, vals) == (match op {
            POp::SExp => match dec_tree(s, p) {
                None => None,
                Some((t, p1)) => run_ops(ops, s, p1, vals.push(t)),
            },
            POp::Cons => {
                if vals.len() < 2 {
                    None
                } else {
                    run_ops(ops, s, p, vals.drop_last().drop_last().push(Tree::Pair(Box::new(vals[vals.len() - 2]), Box::new(vals[vals.len() - 1]))))
                }
            },
        }),
        pdisc(ops.push(op), vals.len() as int) == (match op {
            POp::SExp => pdisc(ops, vals.len() as int + 1),
            POp::Cons => vals.len() >= 2 && pdisc(ops, vals.len() - 1),
        }),
{
    assert(ops.push(op).drop_last() =~= ops);
    assert(ops.push(op).last() == op);
}

/// reading a cons marker: SExp at p (with s[p] == 0xff) behaves like Cons, SExp, SExp from p + 1
#[verifier::spinoff_prover]
pub proof fn lemma_run_cons_marker(ops: Seq<POp>, s: Seq<u8>, p: nat, vals: Seq<Tree>)
    requires
        p < s.len(),
        s[p as int] == 0xff,
    ensures
        run_ops(ops.push(POp::Cons).push(POp::SExp).push(POp::SExp), s, p + 1, vals) == run_ops(ops.push(POp::SExp), s, p, vals),
{
    let o1 = ops.push(POp::Cons);
    let o2 = o1.push(POp::SExp);
    lemma_run_push(o2, POp::SExp, s, p + 1, vals);
    lemma_run_push(ops, POp::SExp, s, p, vals);
    lemma_dec_tree_progress(s, p + 1);
    match dec_tree(s, p + 1) {
        None => {},
        Some((l, p1)) => {
            lemma_run_push(o1, POp::SExp, s, p1, vals.push(l));
            lemma_dec_tree_progress(s, p1);
            match dec_tree(s, p1) {
                None => {},
                Some((r, p2)) => {
                    let v2 = vals.push(l).push(r);
                    lemma_run_push(ops, POp::Cons, s, p2, v2);
                    assert(v2.drop_last().drop_last() =~= vals);
                    assert(v2[v2.len() - 2] == l && v2[v2.len() - 1] == r);
                },
            }
        },
    }
}

/// position-only view of the machine: where the pending operations end (a pending Cons reads nothing)
pub open spec fn pcount(ops: Seq<POp>, s: Seq<u8>, p: nat) -> Option<nat>
    decreases ops.len(),
{
    if ops.len() == 0 {
        Some(p)
    } else {
        match ops.last() {
            POp::SExp => match dec_tree(s, p) {
                None => None,
                Some((t, p1)) => pcount(ops.drop_last(), s, p1),
            },
            POp::Cons => pcount(ops.drop_last(), s, p),
        }
    }
}

pub proof fn lemma_pcount_push(ops: Seq<POp>, op: POp, s: Seq<u8>, p: nat)
    ensures
        pcount(ops.push(op), s, p) == (match op {
            POp::SExp => match dec_tree(s, p) {
                None => None,
                Some((t, p1)) => pcount(ops, s, p1),
            },
            POp::Cons => pcount(ops, s, p),
        }),
{
    assert(ops.push(op).drop_last() =~= ops);
    assert(ops.push(op).last() == op);
}

pub proof fn lemma_pcount_cons_marker(ops: Seq<POp>, s: Seq<u8>, p: nat)
    requires
        p < s.len(),
        s[p as int] == 0xff,
    ensures
        pcount(ops.push(POp::Cons).push(POp::SExp).push(POp::SExp), s, p + 1) == pcount(ops.push(POp::SExp), s, p),
{
    let o1 = ops.push(POp::Cons);
    let o2 = o1.push(POp::SExp);
    lemma_pcount_push(o2, POp::SExp, s, p + 1);
    lemma_pcount_push(ops, POp::SExp, s, p);
    lemma_dec_tree_progress(s, p + 1);
    match dec_tree(s, p + 1) {
        None => {},
        Some((l, p1)) => {
            lemma_pcount_push(o1, POp::SExp, s, p1);
            lemma_dec_tree_progress(s, p1);
            match dec_tree(s, p1) {
                None => {},
                Some((r, p2)) => {
                    lemma_pcount_push(ops, POp::Cons, s, p2);
                },
            }
        },
    }
}

/// the discipline predicate after pushing Cons, SExp, SExp in place of a popped SExp
pub proof fn lemma_pdisc_cons_marker(ops: Seq<POp>, n: int)
    requires
        n >= 0,
    ensures
        pdisc(ops.push(POp::Cons).push(POp::SExp).push(POp::SExp), n) == pdisc(ops.push(POp::SExp), n),
{
    let o1 = ops.push(POp::Cons);
    let o2 = o1.push(POp::SExp);
    let o3 = o2.push(POp::SExp);
    assert(o3.drop_last() =~= o2 && o3.last() == POp::SExp);
    assert(o2.drop_last() =~= o1 && o2.last() == POp::SExp);
    assert(o1.drop_last() =~= ops && o1.last() == POp::Cons);
    let q = ops.push(POp::SExp);
    assert(q.drop_last() =~= ops && q.last() == POp::SExp);
    assert(pdisc(o3, n) == pdisc(o2, n + 1));
    assert(pdisc(o2, n + 1) == pdisc(o1, n + 2));
    assert(pdisc(o1, n + 2) == (n + 2 >= 2 && pdisc(ops, n + 1)));
    assert(pdisc(q, n) == pdisc(ops, n + 1));
}

pub proof fn lemma_pdisc_pop(ops: Seq<POp>, n: int)
    requires
        ops.len() > 0,
    ensures
        pdisc(ops, n) == (match ops.last() {
            POp::SExp => pdisc(ops.drop_last(), n + 1),
            POp::Cons => n >= 2 && pdisc(ops.drop_last(), n - 1),
        }),
{
}
