// R6: `Atom::as_ref()` (impl AsRef<[u8]> for Atom, repo code) is a trait method and cannot carry
// the precondition its index expression needs (`&bytes[4 - len..]` is in bounds only for the
// `len <= 4` that Allocator::atom() produces).  Calls are redirected to this stub whose contract
// is ASSUMED: it returns the bytes the handle denotes.
impl Atom<'_> {
    #[verifier::external_body]
    pub fn as_ref_v(&self) -> (r: &[u8])
        ensures
            r@ == atom_view(*self),
    {
        unimplemented!()
    }
}
