// R7: multiplication and magnitude size on the num-bigint stub (ASSUMED library specifications)
/// number of magnitude bytes of an integer (ceil(bits/8)); uninterpreted
pub uninterp spec fn limbs_of(v: int) -> nat;

/// ASSUMED: a bignum held in memory has fewer than 2^31 magnitude bytes (2 GiB): see observation O3 in DESIGN 11.11
#[verifier::external_body]
pub broadcast proof fn axiom_limbs_bound(v: int)
    ensures
        #[trigger] limbs_of(v) < 0x8000_0000,
{
}

impl Number {
    /// R6: `total *= n` (MulAssign<Number>) made a call
    #[verifier::external_body]
    pub fn mul_num(self, o: Number) -> (r: Number)
        ensures
            r.val() == self.val() * o.val(),
    {
        unimplemented!()
    }

    /// R6: `total *= val` (MulAssign<u32>) made a call
    #[verifier::external_body]
    pub fn mul_u32(self, o: u32) -> (r: Number)
        ensures
            r.val() == self.val() * (o as int),
    {
        unimplemented!()
    }

    /// R7: the repo's `impl Limbs for Number` is `self.bits().div_ceil(8)`: magnitude bytes
    #[verifier::external_body]
    pub fn limbs(&self) -> (r: usize)
        ensures
            r == limbs_of(self.val()),
    {
        unimplemented!()
    }
}

/// state of the multiply operator after the first k arguments: (cost so far, product, size of the product)
pub struct MulState {
    pub cost: nat,
    pub prod: int,
    pub l0: nat,
}

/// documented cost of `*`: base; first operand (new model: 6 per byte); every further operand
/// 885 + 6 * (l0 + l1) + l0 * l1 / divider, where l0 is the size of the running product
pub open spec fn mul_state(items: Seq<Tree>, new_model: bool) -> MulState
    decreases items.len(),
{
    if items.len() == 0 {
        MulState { cost: if new_model { 2000 } else { 92 }, prod: 1, l0: 0 }
    } else if items.len() == 1 {
        let l = item_len(items[0]);
        MulState { cost: if new_model { 2000 + 6 * l } else { 92 }, prod: signed_be(items[0].bytes()), l0: l }
    } else {
        let p = mul_state(items.drop_last(), new_model);
        let l1 = item_len(items.last());
        let prod = p.prod * signed_be(items.last().bytes());
        MulState {
            cost: p.cost + 885 + 6 * (p.l0 + l1) + (p.l0 * l1) / (if new_model { 16nat } else { 128nat }),
            prod: prod,
            l0: limbs_of(prod),
        }
    }
}
