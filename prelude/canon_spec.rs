// ---------------------------------------------------------------------------------------------
// Canonical classic serialization (C15, C16): every atom token is the one the serializer emits
// ---------------------------------------------------------------------------------------------

/// smallest size that needs a k-byte length prefix
pub open spec fn min_size_for_prefix(k: nat) -> nat {
    if k == 1 { 1 } else if k == 2 { 0x40 } else if k == 3 { 0x2000 } else if k == 4 { 0x10_0000 } else if k == 5 { 0x800_0000 } else { 0x10_0000_0000 }
}

/// the canonical-atom check at a token whose first byte is s[p]: the position after the token when it
/// is accepted (the position may lie beyond the buffer: the caller compares it with the length)
pub open spec fn canon_atom_tok(s: Seq<u8>, p: nat) -> Option<nat> {
    if p >= s.len() {
        None
    } else {
        let b = s[p as int];
        if b <= 0x7f || b == 0x80 {
            Some(p + 1)
        } else {
            let k = prefix_len_of(b);
            if k > 6 || p + k > s.len() {
                None
            } else {
                let size = dec_size(b, s.subrange(p as int + 1, (p + k) as int));
                if size >= 0x4_0000_0000 {
                    None
                } else if size == 1 {
                    if p + k + 1 > s.len() || s[(p + k) as int] < 0x80 || size < min_size_for_prefix(k) {
                        None
                    } else {
                        Some(p + k + 1)
                    }
                } else if size >= min_size_for_prefix(k) {
                    Some((p + k + size) as nat)
                } else {
                    None
                }
            }
        }
    }
}

/// n trees in sequence starting at p (the counter machine of the length probes): final position
pub open spec fn run_cnt(n: nat, s: Seq<u8>, p: nat) -> Option<nat>
    decreases n,
{
    if n == 0 {
        Some(p)
    } else {
        match dec_tree(s, p) {
            None => None,
            Some((t, p1)) => run_cnt((n - 1) as nat, s, p1),
        }
    }
}

pub proof fn lemma_run_cnt_marker(n: nat, s: Seq<u8>, p: nat)
    requires
        p < s.len(),
        s[p as int] == 0xff,
        n >= 1,
    ensures
        run_cnt(n, s, p) == run_cnt(n + 1, s, p + 1),
{
    lemma_dec_tree_progress(s, p + 1);
    match dec_tree(s, p + 1) {
        None => {},
        Some((l, p1)) => {
            lemma_dec_tree_progress(s, p1);
            assert(run_cnt(n + 1, s, p + 1) == run_cnt(n, s, p1));
        },
    }
}

/// all atom tokens of the tree at p are canonical
pub open spec fn canon_tree(s: Seq<u8>, p: nat) -> bool
    decreases s.len() - p,
{
    if p >= s.len() {
        false
    } else if s[p as int] == 0xff {
        match dec_tree(s, p + 1) {
            None => false,
            Some((l, p1)) => p1 > p && p1 <= s.len() && canon_tree(s, p + 1) && canon_tree(s, p1),
        }
    } else {
        canon_atom_tok(s, p) is Some
    }
}

/// n canonical trees in sequence
pub open spec fn run_canon(n: nat, s: Seq<u8>, p: nat) -> Option<nat>
    decreases n,
{
    if n == 0 {
        Some(p)
    } else {
        match dec_tree(s, p) {
            None => None,
            Some((t, p1)) => if canon_tree(s, p) { run_canon((n - 1) as nat, s, p1) } else { None },
        }
    }
}

pub proof fn lemma_run_canon_marker(n: nat, s: Seq<u8>, p: nat)
    requires
        p < s.len(),
        s[p as int] == 0xff,
        n >= 1,
    ensures
        run_canon(n, s, p) == run_canon(n + 1, s, p + 1),
{
    lemma_dec_tree_progress(s, p + 1);
    match dec_tree(s, p + 1) {
        None => {},
        Some((l, p1)) => {
            lemma_dec_tree_progress(s, p1);
            assert(run_canon(n + 1, s, p + 1) == (if canon_tree(s, p + 1) { run_canon(n, s, p1) } else { None }));
            match dec_tree(s, p1) {
                None => {},
                Some((r, p2)) => {
                    assert(run_canon(n, s, p1) == (if canon_tree(s, p1) { run_canon((n - 1) as nat, s, p2) } else { None }));
                },
            }
        },
    }
}

/// at an atom token the canonical check and the grammar agree on the end position
pub proof fn lemma_canon_atom_pos(s: Seq<u8>, p: nat)
    requires
        p < s.len(),
        s[p as int] != 0xff,
        dec_atom(s, p) is Some,
        canon_atom_tok(s, p) is Some,
    ensures
        canon_atom_tok(s, p)->0 == (dec_atom(s, p)->0).1,
{
    let b = s[p as int];
    if b == 0x80 {
    } else if b > 0x7f {
        let k = prefix_len_of(b);
        let size = dec_size(b, s.subrange(p as int + 1, (p + k) as int));
    }
}
