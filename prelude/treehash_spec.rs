// ---------------------------------------------------------------------------------------------
// Tree hash (C22): the recursive definition over an uninterpreted SHA-256
// ---------------------------------------------------------------------------------------------
pub uninterp spec fn sha256(s: Seq<u8>) -> Seq<u8>;

/// ASSUMED: a SHA-256 digest has 32 bytes
#[verifier::external_body]
pub broadcast proof fn axiom_sha256_len(s: Seq<u8>)
    ensures
        (#[trigger] sha256(s)).len() == 32,
{
}

/// sha256(1 || atom) for atoms, sha256(2 || left || right) for pairs
pub open spec fn tree_hash(t: Tree) -> Seq<u8>
    decreases t,
{
    match t {
        Tree::Atom(b) => sha256(seq![1u8] + b),
        Tree::Pair(l, r) => sha256(seq![2u8] + tree_hash(*l) + tree_hash(*r)),
    }
}

/// documented cost of hashing a tree: per atom (len + 1) * cost-per-byte, per pair 460,
/// over the fully expanded tree (shared sub-trees are charged every time they occur)
pub open spec fn th_cost(t: Tree, cpb: nat) -> nat
    decreases t,
{
    match t {
        Tree::Atom(b) => (b.len() + 1) * cpb,
        Tree::Pair(l, r) => 460 + th_cost(*l, cpb) + th_cost(*r, cpb),
    }
}

/// number of nodes of the expanded tree
pub open spec fn tree_size(t: Tree) -> nat
    decreases t,
{
    match t {
        Tree::Atom(_) => 1,
        Tree::Pair(l, r) => 1 + tree_size(*l) + tree_size(*r),
    }
}

/// abstract pending operations of the tree-hash machine
pub enum TOp {
    SExp(Tree),
    Cons,
}

/// the digests the machine ends with, from a state (ops read from the top = last element)
pub open spec fn th_fin(ops: Seq<TOp>, hs: Seq<Seq<u8>>) -> Seq<Seq<u8>>
    decreases ops.len(),
{
    if ops.len() == 0 {
        hs
    } else {
        let rest = ops.drop_last();
        match ops.last() {
            TOp::SExp(t) => th_fin(rest, hs.push(tree_hash(t))),
            TOp::Cons => {
                if hs.len() < 2 {
                    hs
                } else {
                    th_fin(rest, hs.drop_last().drop_last().push(sha256(seq![2u8] + hs[hs.len() - 1] + hs[hs.len() - 2])))
                }
            },
        }
    }
}

/// cost still to be charged for the pending operations
pub open spec fn th_pending(ops: Seq<TOp>, cpb: nat) -> nat
    decreases ops.len(),
{
    if ops.len() == 0 {
        0
    } else {
        th_pending(ops.drop_last(), cpb) + (match ops.last() {
            TOp::SExp(t) => th_cost(t, cpb),
            TOp::Cons => 0,
        })
    }
}

/// termination measure: 2 per node of a pending tree, 1 per pending Cons
pub open spec fn th_weight(ops: Seq<TOp>) -> nat
    decreases ops.len(),
{
    if ops.len() == 0 {
        0
    } else {
        th_weight(ops.drop_last()) + (match ops.last() {
            TOp::SExp(t) => 2 * tree_size(t),
            TOp::Cons => 1,
        })
    }
}

/// stack discipline: every Cons finds two digests, exactly one digest remains
pub open spec fn th_disc(ops: Seq<TOp>, nh: int) -> bool
    decreases ops.len(),
{
    if ops.len() == 0 {
        nh == 1
    } else {
        match ops.last() {
            TOp::SExp(_) => th_disc(ops.drop_last(), nh + 1),
            TOp::Cons => nh >= 2 && th_disc(ops.drop_last(), nh - 1),
        }
    }
}

pub proof fn lemma_th_push(ops: Seq<TOp>, op: TOp, hs: Seq<Seq<u8>>, cpb: nat)
    ensures
        th_fin(ops.push(op), hs) == (match op {
            TOp::SExp(t) => th_fin(ops, hs.push(tree_hash(t))),
            TOp::Cons => if hs.len() < 2 { hs } else { th_fin(ops, hs.drop_last().drop_last().push(sha256(seq![2u8] + hs[hs.len() - 1] + hs[hs.len() - 2]))) },
        }),
        th_pending(ops.push(op), cpb) == th_pending(ops, cpb) + (match op { TOp::SExp(t) => th_cost(t, cpb), TOp::Cons => 0 }),
        th_weight(ops.push(op)) == th_weight(ops) + (match op { TOp::SExp(t) => 2 * tree_size(t), TOp::Cons => 1 }),
        th_disc(ops.push(op), hs.len() as int) == (match op { TOp::SExp(_) => th_disc(ops, hs.len() as int + 1), TOp::Cons => hs.len() >= 2 && th_disc(ops, hs.len() - 1) }),
{
    assert(ops.push(op).drop_last() =~= ops);
    assert(ops.push(op).last() == op);
}

/// expanding a pending pair into Cons, left, right (right on top) changes nothing observable
pub proof fn lemma_th_expand(ops: Seq<TOp>, l: Tree, r: Tree, hs: Seq<Seq<u8>>, cpb: nat)
    ensures
        ({
            let t = Tree::Pair(Box::new(l), Box::new(r));
            let e = ops.push(TOp::Cons).push(TOp::SExp(l)).push(TOp::SExp(r));
            &&& th_fin(e, hs) == th_fin(ops.push(TOp::SExp(t)), hs)
            &&& th_pending(e, cpb) + 460 == th_pending(ops.push(TOp::SExp(t)), cpb)
            &&& th_weight(e) + 1 == th_weight(ops.push(TOp::SExp(t)))
            &&& th_disc(e, hs.len() as int) == th_disc(ops.push(TOp::SExp(t)), hs.len() as int)
        }),
{
    let t = Tree::Pair(Box::new(l), Box::new(r));
    let o1 = ops.push(TOp::Cons);
    let o2 = o1.push(TOp::SExp(l));
    let h1 = hs.push(tree_hash(r));
    let h2 = h1.push(tree_hash(l));
    lemma_th_push(o2, TOp::SExp(r), hs, cpb);
    lemma_th_push(o1, TOp::SExp(l), h1, cpb);
    lemma_th_push(ops, TOp::Cons, h2, cpb);
    lemma_th_push(ops, TOp::SExp(t), hs, cpb);
    assert(h2.drop_last().drop_last() =~= hs);
    assert(h2[h2.len() - 1] == tree_hash(l) && h2[h2.len() - 2] == tree_hash(r));
    // discipline with the right lengths
    lemma_th_push(o1, TOp::SExp(l), hs.push(seq![0u8]), cpb);
    lemma_th_push(ops, TOp::Cons, hs.push(seq![0u8]).push(seq![0u8]), cpb);
}
