// ---------------------------------------------------------------------------------------------
// Tree hash (C22): the recursive definition over an uninterpreted SHA-256
// ---------------------------------------------------------------------------------------------
pub uninterp spec fn sha256(s: Seq<u8>) -> Seq<u8>;

/// ASSUMED: a SHA-256 digest has 32 bytes
#[verifier::external_body]
pub broadcast proof fn axiom_sha256_len(s: Seq<u8>)
    ensures
        (#[trigger] sha256(s)).len() == 32,
{
}

/// sha256(1 || atom) for atoms, sha256(2 || left || right) for pairs
pub open spec fn tree_hash(t: Tree) -> Seq<u8>
    decreases t,
{
    match t {
        Tree::Atom(b) => sha256(seq![1u8] + b),
        Tree::Pair(l, r) => sha256(seq![2u8] + tree_hash(*l) + tree_hash(*r)),
    }
}
