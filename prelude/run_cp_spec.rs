// ---------------------------------------------------------------------------------------------
// Checkpoint invariant of the interpreter (replaces the composition assumption H of DESIGN 11.3):
// for every pending ExitGuard / RestoreAllocator operation, with the checkpoint c it will restore,
//   * every value-stack entry below the value it will see on top, and every environment entry that
//     will be on the environment stack at that time, was created before c (its index is below c's
//     counts), and
//   * the pending checkpoints are ordered: a checkpoint deeper in the operation stack is <= one
//     nearer the top.
// `vals` / `envs` are the stack heights at the time the top operation runs (as in `disc`).
// ---------------------------------------------------------------------------------------------

/// node n was created before checkpoint cp (pure index test; equals Allocator::valid_at)
pub open spec fn cp_has(cp: &TransparentCheckpoint, n: NodePtr) -> bool {
    n.tag() == 2 || (n.tag() == 1 && n.idx() < cp.atoms) || (n.tag() == 0 && n.idx() < cp.pairs)
}

pub open spec fn below_cp(cp: &TransparentCheckpoint, nv: int, ne: int, vs: Seq<NodePtr>, es: Seq<NodePtr>) -> bool {
    &&& nv <= vs.len()
    &&& ne <= es.len()
    &&& forall|i: int| 0 <= i < nv ==> cp_has(cp, #[trigger] vs[i])
    &&& forall|j: int| 0 <= j < ne ==> cp_has(cp, #[trigger] es[j])
}

pub open spec fn le_bound(c: &TransparentCheckpoint, bound: Option<TransparentCheckpoint>) -> bool {
    match bound {
        None => true,
        Some(b) => cp_le(c, &b),
    }
}

pub open spec fn cpinv(
    ops: Seq<Operation>,
    vals: int,
    envs: int,
    guards: Seq<SoftforkGuard>,
    cps: Seq<TransparentCheckpoint>,
    vs: Seq<NodePtr>,
    es: Seq<NodePtr>,
    bound: Option<TransparentCheckpoint>,
) -> bool
    decreases ops.len(),
{
    if ops.len() == 0 {
        true
    } else {
        let rest = ops.drop_last();
        match ops.last() {
            Operation::Apply => cpinv(rest, vals - 1, envs - 1, guards, cps, vs, es, bound),
            Operation::Cons => cpinv(rest, vals - 1, envs, guards, cps, vs, es, bound),
            Operation::SwapEval => cpinv(rest, vals - 1, envs, guards, cps, vs, es, bound),
            Operation::ExitGuard => guards.len() > 0 && ({
                let c = guards.last().allocator_state.inner;
                le_bound(&c, bound) && below_cp(&c, vals - 1, envs, vs, es) && cpinv(rest, vals, envs, guards.drop_last(), cps, vs, es, Some(c))
            }),
            Operation::RestoreAllocator => cps.len() > 0 && ({
                let c = cps.last();
                le_bound(&c, bound) && below_cp(&c, vals - 1, envs, vs, es) && cpinv(rest, vals, envs, guards, cps.drop_last(), vs, es, Some(c))
            }),
        }
    }
}

pub proof fn lemma_cp_le_trans(a: &TransparentCheckpoint, b: &TransparentCheckpoint, c: &TransparentCheckpoint)
    requires
        cp_le(a, b),
        cp_le(b, c),
    ensures
        cp_le(a, c),
{
}

pub proof fn lemma_cp_has_mono(a: &TransparentCheckpoint, b: &TransparentCheckpoint, n: NodePtr)
    requires
        cp_le(a, b),
        cp_has(a, n),
    ensures
        cp_has(b, n),
{
}

/// unfolding for a pushed operation
pub proof fn lemma_cp_push_op(
    ops: Seq<Operation>,
    op: Operation,
    vals: int,
    envs: int,
    guards: Seq<SoftforkGuard>,
    cps: Seq<TransparentCheckpoint>,
    vs: Seq<NodePtr>,
    es: Seq<NodePtr>,
    bound: Option<TransparentCheckpoint>,
)
    ensures
        cpinv(ops.push(op), vals, envs, guards, cps, vs, es, bound) == (match op {
            Operation::Apply => cpinv(ops, vals - 1, envs - 1, guards, cps, vs, es, bound),
            Operation::Cons => cpinv(ops, vals - 1, envs, guards, cps, vs, es, bound),
            Operation::SwapEval => cpinv(ops, vals - 1, envs, guards, cps, vs, es, bound),
            Operation::ExitGuard => guards.len() > 0 && ({
                let c = guards.last().allocator_state.inner;
                le_bound(&c, bound) && below_cp(&c, vals - 1, envs, vs, es) && cpinv(ops, vals, envs, guards.drop_last(), cps, vs, es, Some(c))
            }),
            Operation::RestoreAllocator => cps.len() > 0 && ({
                let c = cps.last();
                le_bound(&c, bound) && below_cp(&c, vals - 1, envs, vs, es) && cpinv(ops, vals, envs, guards, cps.drop_last(), vs, es, Some(c))
            }),
        }),
{
    assert(ops.push(op).drop_last() =~= ops);
    assert(ops.push(op).last() == op);
}

/// frame: the predicate only looks at value entries below vals - 1 and environment entries below envs
pub proof fn lemma_cp_frame(
    ops: Seq<Operation>,
    vals: int,
    envs: int,
    guards: Seq<SoftforkGuard>,
    cps: Seq<TransparentCheckpoint>,
    vs: Seq<NodePtr>,
    es: Seq<NodePtr>,
    bound: Option<TransparentCheckpoint>,
    vs2: Seq<NodePtr>,
    es2: Seq<NodePtr>,
)
    requires
        cpinv(ops, vals, envs, guards, cps, vs, es, bound),
        vs2 == vs || vs2.len() >= vals - 1,
        es2 == es || es2.len() >= envs,
        forall|i: int| 0 <= i < vals - 1 && i < vs.len() ==> vs2[i] == vs[i],
        forall|j: int| 0 <= j < envs && j < es.len() ==> es2[j] == es[j],
    ensures
        cpinv(ops, vals, envs, guards, cps, vs2, es2, bound),
    decreases ops.len(),
{
    if ops.len() > 0 {
        let rest = ops.drop_last();
        match ops.last() {
            Operation::Apply => { lemma_cp_frame(rest, vals - 1, envs - 1, guards, cps, vs, es, bound, vs2, es2); },
            Operation::Cons => { lemma_cp_frame(rest, vals - 1, envs, guards, cps, vs, es, bound, vs2, es2); },
            Operation::SwapEval => { lemma_cp_frame(rest, vals - 1, envs, guards, cps, vs, es, bound, vs2, es2); },
            Operation::ExitGuard => {
                let c = guards.last().allocator_state.inner;
                lemma_cp_frame(rest, vals, envs, guards.drop_last(), cps, vs, es, Some(c), vs2, es2);
                assert(below_cp(&c, vals - 1, envs, vs2, es2));
            },
            Operation::RestoreAllocator => {
                let c = cps.last();
                lemma_cp_frame(rest, vals, envs, guards, cps.drop_last(), vs, es, Some(c), vs2, es2);
                assert(below_cp(&c, vals - 1, envs, vs2, es2));
            },
        }
    }
}

/// a larger bound is weaker
pub proof fn lemma_cp_weaken(
    ops: Seq<Operation>,
    vals: int,
    envs: int,
    guards: Seq<SoftforkGuard>,
    cps: Seq<TransparentCheckpoint>,
    vs: Seq<NodePtr>,
    es: Seq<NodePtr>,
    bound: Option<TransparentCheckpoint>,
    bound2: Option<TransparentCheckpoint>,
)
    requires
        cpinv(ops, vals, envs, guards, cps, vs, es, bound),
        bound2 is None || (bound is Some && cp_le(&bound->0, &bound2->0)),
    ensures
        cpinv(ops, vals, envs, guards, cps, vs, es, bound2),
    decreases ops.len(),
{
    if ops.len() > 0 {
        let rest = ops.drop_last();
        match ops.last() {
            Operation::Apply => { lemma_cp_weaken(rest, vals - 1, envs - 1, guards, cps, vs, es, bound, bound2); },
            Operation::Cons => { lemma_cp_weaken(rest, vals - 1, envs, guards, cps, vs, es, bound, bound2); },
            Operation::SwapEval => { lemma_cp_weaken(rest, vals - 1, envs, guards, cps, vs, es, bound, bound2); },
            Operation::ExitGuard => {
                let c = guards.last().allocator_state.inner;
                if bound2 is Some { lemma_cp_le_trans(&c, &bound->0, &bound2->0); }
            },
            Operation::RestoreAllocator => {
                let c = cps.last();
                if bound2 is Some { lemma_cp_le_trans(&c, &bound->0, &bound2->0); }
            },
        }
    }
}

/// with the counts of `disc`, every remaining checkpoint (guards and GC frames) is below the bound
pub proof fn lemma_cp_all_le(
    ops: Seq<Operation>,
    vals: int,
    envs: int,
    guards: Seq<SoftforkGuard>,
    cps: Seq<TransparentCheckpoint>,
    vs: Seq<NodePtr>,
    es: Seq<NodePtr>,
    b: TransparentCheckpoint,
)
    requires
        cpinv(ops, vals, envs, guards, cps, vs, es, Some(b)),
        disc(ops, vals, envs, guards.len() as int, cps.len() as int),
    ensures
        forall|i: int| 0 <= i < guards.len() ==> cp_le(&(#[trigger] guards[i]).allocator_state.inner, &b),
        forall|i: int| 0 <= i < cps.len() ==> cp_le(#[trigger] &cps[i], &b),
    decreases ops.len(),
{
    if ops.len() > 0 {
        let rest = ops.drop_last();
        match ops.last() {
            Operation::Apply => { lemma_cp_all_le(rest, vals - 1, envs - 1, guards, cps, vs, es, b); },
            Operation::Cons => { lemma_cp_all_le(rest, vals - 1, envs, guards, cps, vs, es, b); },
            Operation::SwapEval => { lemma_cp_all_le(rest, vals - 1, envs, guards, cps, vs, es, b); },
            Operation::ExitGuard => {
                let c = guards.last().allocator_state.inner;
                let g2 = guards.drop_last();
                lemma_cp_all_le(rest, vals, envs, g2, cps, vs, es, c);
                assert forall|i: int| 0 <= i < guards.len() implies cp_le(&(#[trigger] guards[i]).allocator_state.inner, &b) by {
                    if i < g2.len() {
                        assert(guards[i] == g2[i]);
                        lemma_cp_le_trans(&g2[i].allocator_state.inner, &c, &b);
                    }
                }
                assert forall|i: int| 0 <= i < cps.len() implies cp_le(#[trigger] &cps[i], &b) by {
                    lemma_cp_le_trans(&cps[i], &c, &b);
                }
            },
            Operation::RestoreAllocator => {
                let c = cps.last();
                let c2 = cps.drop_last();
                lemma_cp_all_le(rest, vals, envs, guards, c2, vs, es, c);
                assert forall|i: int| 0 <= i < guards.len() implies cp_le(&(#[trigger] guards[i]).allocator_state.inner, &b) by {
                    lemma_cp_le_trans(&guards[i].allocator_state.inner, &c, &b);
                }
                assert forall|i: int| 0 <= i < cps.len() implies cp_le(#[trigger] &cps[i], &b) by {
                    if i < c2.len() {
                        assert(cps[i] == c2[i]);
                        lemma_cp_le_trans(&c2[i], &c, &b);
                    }
                }
            },
        }
    } else {
        assert(guards.len() == 0 && cps.len() == 0);
    }
}

/// a bound above every pending checkpoint can be installed
pub proof fn lemma_cp_bound(
    ops: Seq<Operation>,
    vals: int,
    envs: int,
    guards: Seq<SoftforkGuard>,
    cps: Seq<TransparentCheckpoint>,
    vs: Seq<NodePtr>,
    es: Seq<NodePtr>,
    bound: Option<TransparentCheckpoint>,
    c: TransparentCheckpoint,
)
    requires
        cpinv(ops, vals, envs, guards, cps, vs, es, bound),
        forall|i: int| 0 <= i < guards.len() ==> cp_le(&(#[trigger] guards[i]).allocator_state.inner, &c),
        forall|i: int| 0 <= i < cps.len() ==> cp_le(#[trigger] &cps[i], &c),
    ensures
        cpinv(ops, vals, envs, guards, cps, vs, es, Some(c)),
    decreases ops.len(),
{
    if ops.len() > 0 {
        let rest = ops.drop_last();
        match ops.last() {
            Operation::Apply => { lemma_cp_bound(rest, vals - 1, envs - 1, guards, cps, vs, es, bound, c); },
            Operation::Cons => { lemma_cp_bound(rest, vals - 1, envs, guards, cps, vs, es, bound, c); },
            Operation::SwapEval => { lemma_cp_bound(rest, vals - 1, envs, guards, cps, vs, es, bound, c); },
            Operation::ExitGuard => {
                assert(cp_le(&guards[guards.len() - 1].allocator_state.inner, &c));
            },
            Operation::RestoreAllocator => {
                assert(cp_le(&cps[cps.len() - 1], &c));
            },
        }
    }
}

/// every valid node of an allocator is below the checkpoint taken now
pub proof fn lemma_valid_below_now(a: &Allocator, c: &TransparentCheckpoint, vs: Seq<NodePtr>, es: Seq<NodePtr>)
    requires
        a.inv(),
        c.u8s == a.u8_vec@.len() && c.pairs == a.pair_vec@.len() && c.atoms == a.atom_vec@.len(),
        forall|i: int| 0 <= i < vs.len() ==> a.valid(#[trigger] vs[i]),
        forall|i: int| 0 <= i < es.len() ==> a.valid(#[trigger] es[i]),
    ensures
        below_cp(c, vs.len() as int, es.len() as int, vs, es),
{
    assert forall|i: int| 0 <= i < vs.len() implies cp_has(c, #[trigger] vs[i]) by {
        assert(a.valid(vs[i]));
    }
    assert forall|j: int| 0 <= j < es.len() implies cp_has(c, #[trigger] es[j]) by {
        assert(a.valid(es[j]));
    }
}

/// the pending checkpoints of a well-formed interpreter state are all <= the checkpoint taken now
pub proof fn lemma_consistent_le_now(a: &Allocator, c: &TransparentCheckpoint, c2: &TransparentCheckpoint)
    requires
        a.consistent(c2),
        c.u8s == a.u8_vec@.len() && c.pairs == a.pair_vec@.len() && c.atoms == a.atom_vec@.len(),
    ensures
        cp_le(c2, c),
{
}

/// unfolding for the operation on top
pub proof fn lemma_cp_pop_op(
    ops: Seq<Operation>,
    vals: int,
    envs: int,
    guards: Seq<SoftforkGuard>,
    cps: Seq<TransparentCheckpoint>,
    vs: Seq<NodePtr>,
    es: Seq<NodePtr>,
    bound: Option<TransparentCheckpoint>,
)
    requires
        ops.len() > 0,
    ensures
        cpinv(ops, vals, envs, guards, cps, vs, es, bound) == (match ops.last() {
            Operation::Apply => cpinv(ops.drop_last(), vals - 1, envs - 1, guards, cps, vs, es, bound),
            Operation::Cons => cpinv(ops.drop_last(), vals - 1, envs, guards, cps, vs, es, bound),
            Operation::SwapEval => cpinv(ops.drop_last(), vals - 1, envs, guards, cps, vs, es, bound),
            Operation::ExitGuard => guards.len() > 0 && ({
                let c = guards.last().allocator_state.inner;
                le_bound(&c, bound) && below_cp(&c, vals - 1, envs, vs, es) && cpinv(ops.drop_last(), vals, envs, guards.drop_last(), cps, vs, es, Some(c))
            }),
            Operation::RestoreAllocator => cps.len() > 0 && ({
                let c = cps.last();
                le_bound(&c, bound) && below_cp(&c, vals - 1, envs, vs, es) && cpinv(ops.drop_last(), vals, envs, guards, cps.drop_last(), vs, es, Some(c))
            }),
        }),
{
}
