// ---------------------------------------------------------------------------------------------
// R7/R10: std::io replaced by stub types with ASSUMED contracts.
//
// Writers are modelled as "budgeted all-or-nothing sinks": a write of n bytes is either accepted
// whole (sink grows by the bytes, budget shrinks by n) or refused with an error kind and no
// change.  That is what Vec<u8>, Cursor<Vec<u8>> (positioned at its end) and the repo's own
// LimitedWriter over them do; it is an assumption for any other W.  `write_all` is std's default
// method (a loop over `write`); its contract below is the assumed consequence for such sinks.
// ---------------------------------------------------------------------------------------------
#[derive(Clone, Copy, PartialEq, Eq, Structural)]
pub enum ErrorKind {
    OutOfMemory,
    UnexpectedEof,
    WriteZero,
    Other,
}

pub struct IoError {
    pub k: ErrorKind,
}

pub type IoResult<T> = core::result::Result<T, IoError>;

impl IoError {
    pub fn kind(&self) -> (r: ErrorKind)
        ensures
            r == self.k,
    {
        self.k
    }
}

impl vstd::std_specs::convert::FromSpecImpl<ErrorKind> for IoError {
    closed spec fn obeys_from_spec() -> bool {
        true
    }

    closed spec fn from_spec(k: ErrorKind) -> IoError {
        IoError { k }
    }
}

impl From<ErrorKind> for IoError {
    fn from(k: ErrorKind) -> (r: IoError) {
        IoError { k }
    }
}

/// C29, from the statement: a writer refusing for lack of room (ErrorKind::OutOfMemory) must
/// surface as EvalErr::OutOfMemory; every other io error is a serialization error.
pub open spec fn evalerr_from_io(e: IoError) -> EvalErr {
    if e.k == ErrorKind::OutOfMemory {
        EvalErr::OutOfMemory
    } else {
        EvalErr::SerializationError
    }
}

impl vstd::std_specs::convert::FromSpecImpl<IoError> for EvalErr {
    closed spec fn obeys_from_spec() -> bool {
        true
    }

    closed spec fn from_spec(e: IoError) -> EvalErr {
        evalerr_from_io(e)
    }
}

/// Rust semantics of `?`: the error is converted with From::from.  vstd leaves the conversion
/// relation uninterpreted (spec_from); this axiom ties it to the conversion the From impl is
/// PROVED to implement (the impl's body is checked against from_spec == evalerr_from_io).
#[verifier::external_body]
pub broadcast proof fn axiom_question_mark_io(e: IoError, e2: EvalErr)
    ensures
        #[trigger] vstd::std_specs::control_flow::spec_from::<EvalErr, IoError>(e, e2) ==> e2 == evalerr_from_io(e),
{
}


pub open spec fn budget_after(budget: Option<nat>, n: nat) -> Option<nat> {
    match budget {
        None => None,
        Some(b) => Some((b - n) as nat),
    }
}

pub open spec fn accepts(budget: Option<nat>, n: nat) -> bool {
    match budget {
        None => true,
        Some(b) => n <= b,
    }
}

pub trait Write {
    /// every byte accepted so far
    spec fn sink(&self) -> Seq<u8>;

    /// how many more bytes will be accepted (None = unlimited)
    spec fn budget(&self) -> Option<nat>;

    /// the kind reported when a write of n bytes is refused
    spec fn refuse_kind(&self, n: nat) -> ErrorKind;

    /// every refusal, now and after any accepted write, is reported as OutOfMemory
    spec fn only_oom(&self) -> bool;

    fn write(&mut self, buf: &[u8]) -> (r: IoResult<usize>)
        ensures
            accepts(old(self).budget(), buf@.len()) ==> r == Ok::<usize, IoError>(buf@.len() as usize) && final(self).sink() == old(self).sink() + buf@ && final(self).budget() == budget_after(old(self).budget(), buf@.len()),
            !accepts(old(self).budget(), buf@.len()) ==> r is Err && r->Err_0.k == old(self).refuse_kind(buf@.len()) && final(self).sink() == old(self).sink() && final(self).budget() == old(self).budget(),
            old(self).only_oom() ==> final(self).only_oom(),
            old(self).only_oom() && r is Err ==> r->Err_0.k == ErrorKind::OutOfMemory,
    ;

    fn write_all(&mut self, buf: &[u8]) -> (r: IoResult<()>)
        ensures
            accepts(old(self).budget(), buf@.len()) ==> r is Ok && final(self).sink() == old(self).sink() + buf@ && final(self).budget() == budget_after(old(self).budget(), buf@.len()),
            !accepts(old(self).budget(), buf@.len()) ==> r is Err && r->Err_0.k == old(self).refuse_kind(buf@.len()) && final(self).sink() == old(self).sink() && final(self).budget() == old(self).budget(),
            old(self).only_oom() ==> final(self).only_oom(),
            old(self).only_oom() && r is Err ==> r->Err_0.k == ErrorKind::OutOfMemory,
    ;

    fn flush(&mut self) -> (r: IoResult<()>)
        ensures
            final(self).sink() == old(self).sink() && final(self).budget() == old(self).budget(),
            old(self).only_oom() ==> final(self).only_oom(),
    ;
}

/// Cursor<Vec<u8>> as the serializers use it: created empty, only ever appended to
pub struct Cursor<T> {
    pub inner: T,
    pub pos: u64,
}

impl Cursor<Vec<u8>> {
    #[verifier::external_body]
    pub fn new(v: Vec<u8>) -> (r: Cursor<Vec<u8>>)
        ensures
            r.inner@ == v@,
            r.pos == 0,
    {
        unimplemented!()
    }

    #[verifier::external_body]
    pub fn into_inner(self) -> (r: Vec<u8>)
        ensures
            r@ == self.inner@,
    {
        unimplemented!()
    }
}

impl Write for Cursor<Vec<u8>> {
    spec fn sink(&self) -> Seq<u8> {
        self.inner@
    }

    spec fn budget(&self) -> Option<nat> {
        None
    }

    spec fn refuse_kind(&self, n: nat) -> ErrorKind {
        ErrorKind::Other
    }

    spec fn only_oom(&self) -> bool {
        true
    }

    #[verifier::external_body]
    fn write(&mut self, buf: &[u8]) -> (r: IoResult<usize>) {
        unimplemented!()
    }

    #[verifier::external_body]
    fn write_all(&mut self, buf: &[u8]) -> (r: IoResult<()>) {
        unimplemented!()
    }

    #[verifier::external_body]
    fn flush(&mut self) -> (r: IoResult<()>) {
        unimplemented!()
    }
}
