// R7: addition / subtraction on the num-bigint stub (ASSUMED library specifications: exact integer arithmetic), the
// two-element accumulator array of op_add / op_subtract, and the random accumulator index
pub trait NumLike {
    spec fn ival(&self) -> int;
}

impl NumLike for Number {
    closed spec fn ival(&self) -> int {
        self.val()
    }
}

impl NumLike for u32 {
    closed spec fn ival(&self) -> int {
        *self as int
    }
}

impl Number {
    /// R6: `acc += x` (AddAssign<BigInt> / AddAssign<u32>) made a call
    #[verifier::external_body]
    pub fn add_any<T: NumLike>(self, o: T) -> (r: Number)
        ensures
            r.val() == self.val() + o.ival(),
    {
        unimplemented!()
    }

    /// R6: `acc -= x` (SubAssign<BigInt> / SubAssign<u32>) made a call
    #[verifier::external_body]
    pub fn sub_any<T: NumLike>(self, o: T) -> (r: Number)
        ensures
            r.val() == self.val() - o.ival(),
    {
        unimplemented!()
    }
}

/// R6: `acc[i] += v` on the array of two bignums
#[verifier::external_body]
pub fn acc2_add(acc: &mut [Number; 2], i: usize, v: Number)
    requires
        i < 2,
    ensures
        final(acc)@[i as int].val() == old(acc)@[i as int].val() + v.val(),
        final(acc)@[1 - i as int].val() == old(acc)@[1 - i as int].val(),
{
    unimplemented!()
}

/// R6: `acc[i] -= v`
#[verifier::external_body]
pub fn acc2_sub(acc: &mut [Number; 2], i: usize, v: Number)
    requires
        i < 2,
    ensures
        final(acc)@[i as int].val() == old(acc)@[i as int].val() - v.val(),
        final(acc)@[1 - i as int].val() == old(acc)@[1 - i as int].val(),
{
    unimplemented!()
}

/// R6: `&acc[0] + &acc[1] + small_acc`
#[verifier::external_body]
pub fn sum3(acc: &[Number; 2], s: &Number) -> (r: Number)
    ensures
        r.val() == acc@[0].val() + acc@[1].val() + s.val(),
{
    unimplemented!()
}

/// R7: rand::rng() / Rng::random_range: ASSUMED only to return an index inside the range (any index: the proof holds for
/// every choice, which is what makes the random accumulator choice unobservable)
#[verifier::external_body]
pub struct ThreadRng {
    _p: core::marker::PhantomData<()>,
}

#[verifier::external_body]
pub fn rng() -> (r: ThreadRng) {
    unimplemented!()
}

impl ThreadRng {
    #[verifier::external_body]
    pub fn random_index2(&mut self) -> (i: usize)
        ensures
            i < 2,
    {
        unimplemented!()
    }
}

/// R6: `x.max(y)` on usize (Ord::max) made a call
pub fn max_usize(x: usize, y: usize) -> (r: usize)
    ensures
        r == (if x >= y { x } else { y }),
{
    if x >= y { x } else { y }
}

pub open spec fn item_val(t: Tree) -> int {
    signed_be(t.bytes())
}

/// running total of + (sub = false) / - (sub = true: first operand added, the others subtracted)
pub open spec fn addsub_total(items: Seq<Tree>, sub: bool) -> int
    decreases items.len(),
{
    if items.len() == 0 {
        0
    } else if sub && items.len() > 1 {
        addsub_total(items.drop_last(), sub) - item_val(items.last())
    } else {
        addsub_total(items.drop_last(), sub) + item_val(items.last())
    }
}

/// documented cost of + and - before the result allocation: 99 + per operand (320 + 3 per byte; new model: 500 + 4 per
/// byte of max(operand length, magnitude bytes of the running total before the operand))
pub open spec fn addsub_cost(items: Seq<Tree>, sub: bool, new_model: bool) -> nat
    decreases items.len(),
{
    if items.len() == 0 {
        99
    } else {
        let pre = items.drop_last();
        let l = item_len(items.last());
        let acc = limbs_of(addsub_total(pre, sub));
        addsub_cost(pre, sub, new_model) + (if new_model { 500 + 4 * (if acc >= l { acc } else { l }) } else { 320 + 3 * l })
    }
}

pub proof fn lemma_addsub_cost_mono(items: Seq<Tree>, k: int, sub: bool, new_model: bool)
    requires
        0 <= k <= items.len(),
    ensures
        addsub_cost(items.take(k), sub, new_model) <= addsub_cost(items, sub, new_model),
        k < items.len() ==> addsub_cost(items.take(k), sub, new_model) + 320 <= addsub_cost(items, sub, new_model),
    decreases items.len() - k,
{
    if k == items.len() {
        assert(items.take(k) =~= items);
    } else {
        lemma_addsub_cost_mono(items, k + 1, sub, new_model);
        assert(items.take(k + 1).drop_last() =~= items.take(k));
    }
}
