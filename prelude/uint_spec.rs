// ---------------------------------------------------------------------------------------------
// Unsigned integer operands (src/op_utils.rs uint_atom): specification and arithmetic lemmas
// ---------------------------------------------------------------------------------------------

/// the operands uint_atom::<SIZE> accepts: non-negative integers whose significant bytes fit in
/// SIZE bytes; under CANONICAL_INTS the encoding must also be the minimal one
pub open spec fn uint_ok(s: Seq<u8>, canon: bool, size: nat) -> bool {
    s.len() == 0 || (s[0] < 0x80 && (if canon {
        if s[0] == 0 {
            s.len() >= 2 && s[1] >= 0x80 && s.len() - 1 <= size
        } else {
            s.len() <= size
        }
    } else {
        s.len() - lead_zeros(s) <= size
    }))
}

pub proof fn lemma_pow256_vals8()
    ensures
        pow256(5) == 0x100_0000_0000,
        pow256(6) == 0x1_0000_0000_0000,
        pow256(7) == 0x100_0000_0000_0000,
        pow256(8) == 0x1_0000_0000_0000_0000,
{
    reveal_with_fuel(pow256, 10);
}

pub proof fn lemma_shl8_u64(x: u64, b: u8)
    requires
        x < 0x100_0000_0000_0000,
    ensures
        ((x << 8u64) | (b as u64)) == x * 256 + b,
        (x << 8u64) == x * 256,
{
    assert(((x << 8u64) | (b as u64)) == x * 256 + b) by (bit_vector)
        requires
            x < 0x100_0000_0000_0000,
    ;
    assert((x << 8u64) == x * 256) by (bit_vector)
        requires
            x < 0x100_0000_0000_0000,
    ;
}

pub proof fn lemma_shl8_or_u64(y: u64, b: u8)
    requires
        y % 256 == 0,
    ensures
        (y | (b as u64)) == y + b,
{
    assert(y % 256 == 0 ==> (y | (b as u64)) == add(y, b as u64)) by (bit_vector);
    assert(y <= u64::MAX - 255) by {
        assert(y % 256 == 0 ==> y <= 0xffff_ffff_ffff_ff00u64) by (bit_vector);
    }
}

/// leading zero bytes do not change the value
pub proof fn lemma_be_val_skip_zeros(s: Seq<u8>, j: int)
    requires
        0 <= j <= s.len(),
        forall|i: int| 0 <= i < j ==> s[i] == 0,
    ensures
        be_val(s.skip(j)) == be_val(s),
    decreases s.len(),
{
    if j == s.len() {
        assert(s.skip(j) =~= Seq::<u8>::empty());
        assert(s.take(j) =~= s);
        lemma_be_val_zeros(s, j);
    } else {
        assert(s.skip(j).drop_last() =~= s.drop_last().skip(j));
        assert(s.skip(j).last() == s.last());
        lemma_be_val_skip_zeros(s.drop_last(), j);
    }
}
