// ---------------------------------------------------------------------------------------------
// Specification vocabulary shared by all units (spec functions only; nothing here is assumed
// about /repo code).  See DESIGN.md section 2.3.
// ---------------------------------------------------------------------------------------------

/// unsigned big-endian value of a byte string
pub open spec fn be_val(s: Seq<u8>) -> nat
    decreases s.len(),
{
    if s.len() == 0 {
        0
    } else {
        (be_val(s.drop_last()) * 256 + s.last() as nat) as nat
    }
}

/// two's-complement big-endian value (empty = 0)
pub open spec fn signed_be(s: Seq<u8>) -> int {
    if s.len() == 0 {
        0
    } else if s[0] >= 0x80 {
        be_val(s) as int - pow256(s.len())
    } else {
        be_val(s) as int
    }
}

pub open spec fn pow256(n: nat) -> int
    decreases n,
{
    if n == 0 {
        1
    } else {
        256 * pow256((n - 1) as nat)
    }
}

/// no redundant leading 0x00 / 0xff byte (the encoding new_number etc. must produce)
pub open spec fn canonical_int(s: Seq<u8>) -> bool {
    if s.len() == 0 {
        true
    } else if s.len() == 1 {
        s[0] != 0
    } else {
        !(s[0] == 0 && s[1] < 0x80) && !(s[0] == 0xff && s[1] >= 0x80)
    }
}

/// the bytes of an inline small atom with value v (v < 2^31): minimal non-negative encoding
pub open spec fn small_bytes(v: u32) -> Seq<u8> {
    if v == 0 {
        Seq::<u8>::empty()
    } else if v < 0x80 {
        seq![v as u8]
    } else if v < 0x8000 {
        seq![(v >> 8) as u8, v as u8]
    } else if v < 0x80_0000 {
        seq![(v >> 16) as u8, (v >> 8) as u8, v as u8]
    } else if v < 0x8000_0000 {
        seq![(v >> 24) as u8, (v >> 16) as u8, (v >> 8) as u8, v as u8]
    } else {
        seq![0u8, (v >> 24) as u8, (v >> 16) as u8, (v >> 8) as u8, v as u8]
    }
}

/// `fits(s) == Some(v)`: s is the minimal encoding of a value v < 2^26 (statement of C14)
pub open spec fn fits(s: Seq<u8>) -> Option<u32> {
    if s.len() <= 4 && be_val(s) < 0x400_0000 && s =~= small_bytes(be_val(s) as u32) {
        Some(be_val(s) as u32)
    } else {
        None
    }
}

/// the abstract CLVM tree
pub enum Tree {
    Atom(Seq<u8>),
    Pair(Box<Tree>, Box<Tree>),
}

impl Tree {
    pub open spec fn is_atom(self) -> bool {
        self is Atom
    }

    pub open spec fn bytes(self) -> Seq<u8> {
        match self {
            Tree::Atom(b) => b,
            _ => Seq::<u8>::empty(),
        }
    }

    pub open spec fn first(self) -> Tree {
        match self {
            Tree::Pair(a, _) => *a,
            _ => self,
        }
    }

    pub open spec fn rest(self) -> Tree {
        match self {
            Tree::Pair(_, b) => *b,
            _ => self,
        }
    }

    pub open spec fn nil() -> Tree {
        Tree::Atom(Seq::<u8>::empty())
    }
}

// be_val facts used across units ---------------------------------------------------------------

pub proof fn lemma_be_val_1(s: Seq<u8>)
    requires
        s.len() == 1,
    ensures
        be_val(s) == s[0] as nat,
{
    reveal_with_fuel(be_val, 3);
    assert(s.drop_last().len() == 0);
}

pub proof fn lemma_be_val_2(s: Seq<u8>)
    requires
        s.len() == 2,
    ensures
        be_val(s) == s[0] as nat * 256 + s[1] as nat,
{
    reveal_with_fuel(be_val, 4);
    let t = s.drop_last();
    assert(t.len() == 1);
    assert(t.drop_last().len() == 0);
    assert(t.last() == s[0]);
}

pub proof fn lemma_be_val_3(s: Seq<u8>)
    requires
        s.len() == 3,
    ensures
        be_val(s) == s[0] as nat * 65536 + s[1] as nat * 256 + s[2] as nat,
{
    let t = s.drop_last();
    lemma_be_val_2(t);
    assert(t[0] == s[0] && t[1] == s[1]);
}

pub proof fn lemma_be_val_4(s: Seq<u8>)
    requires
        s.len() == 4,
    ensures
        be_val(s) == s[0] as nat * 16777216 + s[1] as nat * 65536 + s[2] as nat * 256 + s[3] as nat,
{
    let t = s.drop_last();
    lemma_be_val_3(t);
    assert(t[0] == s[0] && t[1] == s[1] && t[2] == s[2]);
}

pub proof fn lemma_be_val_push(s: Seq<u8>, b: u8)
    ensures
        be_val(s.push(b)) == be_val(s) * 256 + b as nat,
{
    assert(s.push(b).drop_last() =~= s);
    assert(s.push(b).last() == b);
}
