// ---------------------------------------------------------------------------------------------
// Lemmas about the specification vocabulary and the allocator view (all proved; nothing assumed)
// ---------------------------------------------------------------------------------------------
pub proof fn lemma_pow256_step(k: nat)
    ensures
        pow256(k + 1) == 256 * pow256(k),
        pow256(k) >= 1,
    decreases k,
{
    reveal_with_fuel(pow256, 2);
    if k > 0 {
        lemma_pow256_step((k - 1) as nat);
    }
}

pub proof fn lemma_pow256_vals()
    ensures
        pow256(0) == 1,
        pow256(1) == 256,
        pow256(2) == 65536,
        pow256(3) == 16777216,
        pow256(4) == 4294967296,
{
    reveal_with_fuel(pow256, 6);
}

pub proof fn lemma_shl8(x: u32, b: u8)
    requires
        x < 0x100_0000,
    ensures
        ((x << 8u32) | (b as u32)) == x * 256 + b,
{
    assert(((x << 8u32) | (b as u32)) == x * 256 + b) by (bit_vector)
        requires
            x < 0x100_0000,
    ;
}

pub proof fn lemma_be_val_bound(s: Seq<u8>)
    ensures
        be_val(s) < pow256(s.len()),
    decreases s.len(),
{
    if s.len() > 0 {
        lemma_be_val_bound(s.drop_last());
        lemma_pow256_step((s.len() - 1) as nat);
    } else {
        reveal_with_fuel(pow256, 2);
    }
}

/// the value of a prefix, shifted, never exceeds the value of the whole
pub proof fn lemma_be_val_prefix_le(s: Seq<u8>, k: int)
    requires
        0 <= k <= s.len(),
    ensures
        be_val(s.take(k)) * pow256((s.len() - k) as nat) <= be_val(s),
    decreases s.len() - k,
{
    if k == s.len() {
        assert(s.take(k) =~= s);
        reveal_with_fuel(pow256, 2);
    } else {
        lemma_be_val_prefix_le(s, k + 1);
        assert(s.take(k + 1) =~= s.take(k).push(s[k]));
        lemma_be_val_push(s.take(k), s[k]);
        lemma_pow256_step((s.len() - k - 1) as nat);
        let p = pow256((s.len() - k - 1) as nat);
        let a = be_val(s.take(k));
        assert(a * (256 * p) == (a * 256) * p) by (nonlinear_arith);
        assert((a * 256) * p <= (a * 256 + s[k] as nat) * p) by (nonlinear_arith)
            requires
                p >= 1,
        ;
    }
}

/// rejected buffers are not the minimal encoding of a value below 2^26
pub proof fn lemma_fits_reject(v: Seq<u8>)
    requires
        v.len() > 0,
        v.len() > 4 || (v.len() == 1 && v[0] == 0) || (v[0] & 0x80) != 0 || (v.len() >= 2 && v[0] == 0 && (v[1] & 0x80) == 0) || (v.len()
            == 4 && v[0] > 0x03),
    ensures
        fits(v) is None,
{
    let b0 = v[0];
    assert((b0 & 0x80) != 0 <==> b0 >= 0x80) by (bit_vector);
    if v.len() <= 4 && be_val(v) < 0x400_0000 {
        let x = be_val(v) as u32;
        lemma_small_bytes_shape(x);
        if v.len() == 1 {
            lemma_be_val_1(v);
        } else if v.len() == 2 {
            lemma_be_val_2(v);
            let b1 = v[1];
            assert((b1 & 0x80) == 0 <==> b1 < 0x80) by (bit_vector);
        } else if v.len() == 3 {
            lemma_be_val_3(v);
            let b1 = v[1];
            assert((b1 & 0x80) == 0 <==> b1 < 0x80) by (bit_vector);
        } else {
            lemma_be_val_4(v);
            let b1 = v[1];
            assert((b1 & 0x80) == 0 <==> b1 < 0x80) by (bit_vector);
        }
    }
}

/// shape facts about small_bytes(x) for x < 2^26
pub proof fn lemma_small_bytes_shape(x: u32)
    requires
        x < 0x400_0000,
    ensures
        small_bytes(x).len() <= 4,
        x == 0 <==> small_bytes(x).len() == 0,
        small_bytes(x).len() > 0 ==> small_bytes(x)[0] < 0x80,
        small_bytes(x).len() == 1 ==> small_bytes(x)[0] != 0,
        small_bytes(x).len() >= 2 && small_bytes(x)[0] == 0 ==> small_bytes(x)[1] >= 0x80,
        small_bytes(x).len() == 4 ==> small_bytes(x)[0] <= 3,
        small_bytes(x).len() == 1 ==> x < 0x80,
        small_bytes(x).len() == 2 ==> 0x80 <= x < 0x8000,
        small_bytes(x).len() == 3 ==> 0x8000 <= x < 0x80_0000,
        small_bytes(x).len() == 4 ==> 0x80_0000 <= x,
{
    assert(x < 0x80 ==> (x as u8) < 0x80) by (bit_vector);
    assert(0x80 <= x < 0x8000 ==> ((x >> 8u32) as u8) < 0x80 && (((x >> 8u32) as u8) == 0 ==> (x as u8) >= 0x80)) by (bit_vector);
    assert(0x8000 <= x < 0x80_0000 ==> ((x >> 16u32) as u8) < 0x80 && (((x >> 16u32) as u8) == 0 ==> ((x >> 8u32) as u8) >= 0x80))
        by (bit_vector);
    assert(0x80_0000 <= x < 0x400_0000 ==> ((x >> 24u32) as u8) <= 3 && (((x >> 24u32) as u8) == 0 ==> ((x >> 16u32) as u8) >= 0x80))
        by (bit_vector);
    assert(0 < x < 0x80 ==> (x as u8) != 0) by (bit_vector);
}

pub proof fn lemma_fits_accept_pre(v: Seq<u8>)
    requires
        v.len() == 0 || !(v.len() > 4 || (v.len() == 1 && v[0] == 0) || (v[0] & 0x80) != 0 || (v.len() >= 2 && v[0] == 0 && (v[1] & 0x80)
            == 0) || (v.len() == 4 && v[0] > 0x03)),
    ensures
        v.len() <= 4,
        be_val(v) < 0x400_0000,
{
    if v.len() > 0 {
        let b0 = v[0];
        assert((b0 & 0x80) != 0 <==> b0 >= 0x80) by (bit_vector);
        if v.len() == 1 {
            lemma_be_val_1(v);
        } else if v.len() == 2 {
            lemma_be_val_2(v);
        } else if v.len() == 3 {
            lemma_be_val_3(v);
        } else {
            lemma_be_val_4(v);
        }
    } else {
        reveal_with_fuel(be_val, 1);
    }
}

/// accepted buffers are exactly small_bytes(be_val)
pub proof fn lemma_fits_accept(v: Seq<u8>)
    requires
        v.len() == 0 || !(v.len() > 4 || (v.len() == 1 && v[0] == 0) || (v[0] & 0x80) != 0 || (v.len() >= 2 && v[0] == 0 && (v[1] & 0x80)
            == 0) || (v.len() == 4 && v[0] > 0x03)),
    ensures
        fits(v) == Some(be_val(v) as u32),
{
    lemma_fits_accept_pre(v);
    let x = be_val(v) as u32;
    if v.len() == 0 {
        reveal_with_fuel(be_val, 1);
        assert(v =~= small_bytes(0));
    } else {
        let b0 = v[0];
        assert((b0 & 0x80) != 0 <==> b0 >= 0x80) by (bit_vector);
        if v.len() == 1 {
            lemma_be_val_1(v);
            assert(x == b0);
            assert(x < 0x80 ==> (x as u8) == x) by (bit_vector);
            assert(v =~= small_bytes(x));
        } else if v.len() == 2 {
            lemma_be_val_2(v);
            let b1 = v[1];
            assert((b1 & 0x80) == 0 <==> b1 < 0x80) by (bit_vector);
            assert(x == b0 as u32 * 256 + b1 as u32);
            assert(b0 < 0x80 && x == b0 as u32 * 256 + b1 as u32 ==> ((x >> 8u32) as u8) == b0 && (x as u8) == b1) by (bit_vector);
            assert(v =~= small_bytes(x));
        } else if v.len() == 3 {
            lemma_be_val_3(v);
            let b1 = v[1];
            let b2 = v[2];
            assert((b1 & 0x80) == 0 <==> b1 < 0x80) by (bit_vector);
            assert(x == b0 as u32 * 65536 + b1 as u32 * 256 + b2 as u32);
            assert(b0 < 0x80 && x == b0 as u32 * 65536 + b1 as u32 * 256 + b2 as u32 ==> ((x >> 16u32) as u8) == b0 && ((x >> 8u32) as u8) == b1
                && (x as u8) == b2) by (bit_vector);
            assert(v =~= small_bytes(x));
        } else {
            lemma_be_val_4(v);
            let b1 = v[1];
            let b2 = v[2];
            let b3 = v[3];
            assert((b1 & 0x80) == 0 <==> b1 < 0x80) by (bit_vector);
            assert(x == b0 as u32 * 16777216 + b1 as u32 * 65536 + b2 as u32 * 256 + b3 as u32);
            assert(b0 <= 3 && x == b0 as u32 * 16777216 + b1 as u32 * 65536 + b2 as u32 * 256 + b3 as u32 ==> ((x >> 24u32) as u8) == b0 && ((x
                >> 16u32) as u8) == b1 && ((x >> 8u32) as u8) == b2 && (x as u8) == b3) by (bit_vector);
            assert(v =~= small_bytes(x));
        }
    }
}

pub proof fn lemma_fits_small_bytes(x: u32)
    requires
        x < 0x400_0000,
    ensures
        fits(small_bytes(x)) == Some(x),
        be_val(small_bytes(x)) == x,
{
    let s = small_bytes(x);
    if x == 0 {
        reveal_with_fuel(be_val, 1);
    } else if x < 0x80 {
        lemma_be_val_1(s);
        assert(x < 0x80 ==> (x as u8) == x) by (bit_vector);
    } else if x < 0x8000 {
        lemma_be_val_2(s);
        assert(x < 0x8000 ==> ((x >> 8u32) as u8) as u32 * 256 + (x as u8) as u32 == x) by (bit_vector);
    } else if x < 0x80_0000 {
        lemma_be_val_3(s);
        assert(x < 0x80_0000 ==> ((x >> 16u32) as u8) as u32 * 65536 + ((x >> 8u32) as u8) as u32 * 256 + (x as u8) as u32 == x)
            by (bit_vector);
    } else {
        lemma_be_val_4(s);
        assert(x < 0x400_0000 ==> ((x >> 24u32) as u8) as u32 * 16777216 + ((x >> 16u32) as u8) as u32 * 65536 + ((x >> 8u32) as u8) as u32
            * 256 + (x as u8) as u32 == x) by (bit_vector);
    }
    assert(s =~= small_bytes(be_val(s) as u32));
}

/// frame lemma: a grown allocator in which every NEW atom either starts at/after the old end of
/// the heap or lies inside the byte range of an older atom keeps every checkpoint consistent
pub proof fn lemma_consistent_grow(a: &Allocator, o: &Allocator, cp: &TransparentCheckpoint)
    requires
        o.inv(),
        a.extends(o),
        o.consistent(cp),
        forall|i: int|
            o.atom_vec@.len() <= i < a.atom_vec@.len() ==> {
                let ab = #[trigger] a.atom_vec@[i];
                ab.start as nat >= o.u8_vec@.len() || exists|j: int|
                    0 <= j < o.atom_vec@.len() && (#[trigger] o.atom_vec@[j]).start <= ab.start && ab.end <= o.atom_vec@[j].end
            },
    ensures
        a.consistent(cp),
{
    assert forall|i: int| cp.atoms <= i < a.atom_vec@.len() implies ({
        let ab = #[trigger] a.atom_vec@[i];
        ab.start < cp.u8s ==> ab.end <= cp.u8s
    }) by {
        let ab = a.atom_vec@[i];
        if i < o.atom_vec@.len() {
            assert(o.atom_vec@[i] == ab);
        } else if ab.start as nat >= o.u8_vec@.len() {
        } else {
            let j = choose|j: int| 0 <= j < o.atom_vec@.len() && (#[trigger] o.atom_vec@[j]).start <= ab.start && ab.end <= o.atom_vec@[j].end;
            let pj = o.atom_vec@[j];
            if j < cp.atoms {
                assert(pj.end <= cp.u8s);
            }
        }
    }
    assert forall|i: int| 0 <= i < cp.atoms implies (#[trigger] a.atom_vec@[i]).end <= cp.u8s by {
        assert(o.atom_vec@[i].end <= cp.u8s);
    }
    assert forall|i: int| 0 <= i < cp.pairs implies ({
        let p = #[trigger] a.pair_vec@[i];
        (p.first.tag() == 1 ==> p.first.idx() < cp.atoms) && (p.rest.tag() == 1 ==> p.rest.idx() < cp.atoms)
    }) by {
        let p = o.pair_vec@[i];
    }
}

pub proof fn lemma_inv_grow_atoms(a: &Allocator, o: &Allocator)
    requires
        o.inv(),
        a.extends(o),
        a.pair_vec@ == o.pair_vec@,
        a.validated_g1_points@ == o.validated_g1_points@,
        a.validated_g2_points@ == o.validated_g2_points@,
        a.atoms_s() <= MAX_NUM_ATOMS,
        a.pairs_s() <= MAX_NUM_PAIRS,
        a.u8_vec@.len() <= u32::MAX,
        a.heap_s() <= a.cap_s() + 3 * a.atoms_s(),
        forall|i: int| o.atom_vec@.len() <= i < a.atom_vec@.len() ==> (#[trigger] a.atom_vec@[i]).ok(a.u8_vec@.len()),
    ensures
        a.inv(),
        forall|n: NodePtr| o.valid(n) ==> a.valid(n) && #[trigger] a.tree(n) == o.tree(n),
{
    lemma_extends_frame(a, o);
    assert forall|i: int| 0 <= i < a.atom_vec@.len() implies (#[trigger] a.atom_vec@[i]).ok(a.u8_vec@.len()) by {
        if i < o.atom_vec@.len() {
            assert(o.atom_vec@[i].ok(o.u8_vec@.len()));
        }
    }
    assert forall|i: int| 0 <= i < a.pair_vec@.len() implies #[trigger] a.pair_ok(i) by {
        assert(o.pair_ok(i));
    }
}

/// the last len_for_value(x) bytes of x.to_be_bytes() are small_bytes(x)
pub proof fn lemma_small_bytes_suffix(x: u32, be: Seq<u8>)
    requires
        x < 0x8000_0000,
        be =~= seq![(x >> 24) as u8, (x >> 16) as u8, (x >> 8) as u8, x as u8],
    ensures
        be.subrange(4 - small_bytes(x).len() as int, 4) =~= small_bytes(x),
{
}

pub proof fn lemma_f1_short(x: u32, start: u32, end: u32)
    requires
        x < 0x400_0000,
        start <= end,
        end as nat <= small_bytes(x).len(),
        fits(small_bytes(x).subrange(start as int, end as int)) is None,
    ensures
        end - start <= 3,
        end - start >= 1,
{
    lemma_fits_small_bytes(x);
    lemma_small_bytes_shape(x);
    let s = small_bytes(x);
    if end - start == s.len() {
        assert(s.subrange(start as int, end as int) =~= s);
    }
    if end == start {
        assert(s.subrange(start as int, end as int) =~= Seq::<u8>::empty());
        reveal_with_fuel(be_val, 1);
        assert(Seq::<u8>::empty() =~= small_bytes(0));
    }
}


pub proof fn lemma_pow256_mono(a: nat, b: nat)
    requires
        a <= b,
    ensures
        pow256(a) <= pow256(b),
    decreases b - a,
{
    if a < b {
        lemma_pow256_mono(a, (b - 1) as nat);
        lemma_pow256_step((b - 1) as nat);
    }
}

/// big-endian value is injective on byte strings of equal length
pub proof fn lemma_be_val_inj(s: Seq<u8>, t: Seq<u8>)
    requires
        s.len() == t.len(),
        be_val(s) == be_val(t),
    ensures
        s =~= t,
    decreases s.len(),
{
    if s.len() > 0 {
        let a = be_val(s.drop_last());
        let b = be_val(t.drop_last());
        assert(a * 256 + s.last() as nat == b * 256 + t.last() as nat);
        assert(a == b && s.last() == t.last()) by (nonlinear_arith)
            requires
                a * 256 + s.last() as nat == b * 256 + t.last() as nat,
                s.last() < 256,
                t.last() < 256,
        ;
        lemma_be_val_inj(s.drop_last(), t.drop_last());
        assert(s =~= s.drop_last().push(s.last()));
        assert(t =~= t.drop_last().push(t.last()));
    }
}

/// a node that predates checkpoint cp keeps its tree in any allocator that agrees with `o` on the
/// prefix cut at cp (whatever was re-grown after the cut)
pub proof fn lemma_tree_after_cut_grow(a: &Allocator, o: &Allocator, cp: &TransparentCheckpoint, n: NodePtr)
    requires
        o.inv(),
        o.consistent(cp),
        o.valid_at(cp, n),
        a.pair_vec@.len() >= cp.pairs,
        a.atom_vec@.len() >= cp.atoms,
        a.u8_vec@.len() >= cp.u8s,
        forall|i: int| 0 <= i < cp.pairs ==> #[trigger] a.pair_vec@[i] == o.pair_vec@[i],
        forall|i: int| 0 <= i < cp.atoms ==> #[trigger] a.atom_vec@[i] == o.atom_vec@[i],
        forall|i: int| 0 <= i < cp.u8s ==> #[trigger] a.u8_vec@[i] == o.u8_vec@[i],
    ensures
        a.valid(n),
        a.tree(n) == o.tree(n),
    decreases n.rank(),
{
    if n.tag() == 0 {
        let i = n.idx() as int;
        assert(o.pair_ok(i));
        let p = o.pair_vec@[i];
        assert(a.pair_vec@[i] == p);
        lemma_idx_bound(p.first);
        lemma_idx_bound(p.rest);
        lemma_tree_after_cut_grow(a, o, cp, p.first);
        lemma_tree_after_cut_grow(a, o, cp, p.rest);
    } else if n.tag() == 1 {
        let ab = o.atom_vec@[n.idx() as int];
        assert(ab.ok(o.u8_vec@.len()));
        assert(ab.end <= cp.u8s);
        assert(a.atom_vec@[n.idx() as int] == ab);
        assert(a.u8_vec@.subrange(ab.start as int, ab.end as int) =~= o.u8_vec@.subrange(ab.start as int, ab.end as int));
    }
}

pub proof fn lemma_be_val_small_pos(s: Seq<u8>)
    requires
        1 <= s.len() <= 4,
        s[0] < 0x80,
    ensures
        be_val(s) < 0x8000_0000,
{
    if s.len() == 1 {
        lemma_be_val_1(s);
    } else if s.len() == 2 {
        lemma_be_val_2(s);
    } else if s.len() == 3 {
        lemma_be_val_3(s);
    } else {
        lemma_be_val_4(s);
    }
}

pub proof fn lemma_concat_step(a: &Allocator, nodes: Seq<NodePtr>, k: int)
    requires
        0 <= k < nodes.len(),
    ensures
        concat_bytes(a, nodes.take(k + 1)) == concat_bytes(a, nodes.take(k)) + a.bytes(nodes[k]),
{
    assert(nodes.take(k + 1).drop_last() =~= nodes.take(k));
    assert(nodes.take(k + 1).last() == nodes[k]);
}

pub proof fn lemma_concat_len_mono(a: &Allocator, nodes: Seq<NodePtr>, k: int)
    requires
        0 <= k <= nodes.len(),
    ensures
        concat_bytes(a, nodes.take(k)).len() <= concat_bytes(a, nodes).len(),
    decreases nodes.len() - k,
{
    if k == nodes.len() {
        assert(nodes.take(k) =~= nodes);
    } else {
        lemma_concat_step(a, nodes, k);
        lemma_concat_len_mono(a, nodes, k + 1);
    }
}

/// concat_bytes only reads bytes(): it is the same in any allocator that keeps those bytes
pub proof fn lemma_concat_same(a: &Allocator, b: &Allocator, nodes: Seq<NodePtr>)
    requires
        forall|i: int| 0 <= i < nodes.len() ==> a.bytes(#[trigger] nodes[i]) == b.bytes(nodes[i]),
    ensures
        concat_bytes(a, nodes) == concat_bytes(b, nodes),
    decreases nodes.len(),
{
    if nodes.len() > 0 {
        lemma_concat_same(a, b, nodes.drop_last());
    }
}

/// Rust language guarantee: no object is larger than isize::MAX bytes; NodePtr is 4 bytes
#[verifier::external_body]
pub proof fn axiom_slice_len_nodeptr(s: &[NodePtr])
    ensures
        s@.len() <= 0x1fff_ffff_ffff_ffff,
{
}
