// R7: bitwise and / or / xor on the num-bigint stub (BitAndAssign / BitOrAssign / BitXorAssign for &BigInt).
// ASSUMED library specification: each is ONE function of the two abstract integer values (kind 0 = and, 1 = or,
// 2 = xor on infinite two's complement; the definition is left uninterpreted) that is associative and
// commutative and has the identity the operators start from (-1 for and, 0 for or and xor).
pub uninterp spec fn bop(kind: int, x: int, y: int) -> int;

pub open spec fn bop_ident(kind: int) -> int {
    if kind == 0 { -1 } else { 0 }
}

#[verifier::external_body]
pub proof fn axiom_bop_assoc(kind: int, x: int, y: int, z: int)
    ensures
        bop(kind, bop(kind, x, y), z) == bop(kind, x, bop(kind, y, z)),
{
}

#[verifier::external_body]
pub proof fn axiom_bop_comm(kind: int, x: int, y: int)
    ensures
        bop(kind, x, y) == bop(kind, y, x),
{
}

#[verifier::external_body]
pub proof fn axiom_bop_ident(kind: int, x: int)
    requires
        0 <= kind <= 2,
    ensures
        bop(kind, bop_ident(kind), x) == x,
{
}

impl Number {
    /// R6: `x.clone()` on a bignum (impl Clone for BigInt) made an inherent call
    #[verifier::external_body]
    pub fn clone_num(&self) -> (r: Number)
        ensures
            r.val() == self.val(),
    {
        unimplemented!()
    }

    #[verifier::external_body]
    pub fn bitand_assign(&mut self, o: &Number)
        ensures
            final(self).val() == bop(0, old(self).val(), o.val()),
    {
        unimplemented!()
    }

    #[verifier::external_body]
    pub fn bitor_assign(&mut self, o: &Number)
        ensures
            final(self).val() == bop(1, old(self).val(), o.val()),
    {
        unimplemented!()
    }

    #[verifier::external_body]
    pub fn bitxor_assign(&mut self, o: &Number)
        ensures
            final(self).val() == bop(2, old(self).val(), o.val()),
    {
        unimplemented!()
    }
}

/// R6: `len.max(x)` on usize (Ord::max) made a call
pub fn max_usize(x: usize, y: usize) -> (r: usize)
    ensures
        r == (if x >= y { x } else { y }),
{
    if x >= y { x } else { y }
}

/// the integer values of the items
pub open spec fn item_val(t: Tree) -> int {
    signed_be(t.bytes())
}

/// left fold of the operator over the items, starting from `init`
pub open spec fn bfold(kind: int, init: int, items: Seq<Tree>) -> int
    decreases items.len(),
{
    if items.len() == 0 {
        init
    } else {
        bop(kind, bfold(kind, init, items.drop_last()), item_val(items.last()))
    }
}

/// documented cost of the logical operators before the result allocation.
/// pre-hard-fork: 100 + per argument (264 + 3 per byte); new model: 3 per byte of max(argument size, accumulator size)
pub open spec fn log_cost(kind: int, items: Seq<Tree>, new_model: bool) -> nat
    decreases items.len(),
{
    if items.len() == 0 {
        100
    } else {
        let pre = items.drop_last();
        let l = item_len(items.last());
        let acc = limbs_of(bfold(kind, bop_ident(kind), pre));
        log_cost(kind, pre, new_model) + 264 + 3 * (if new_model { if l >= acc { l } else { acc } } else { l })
    }
}

pub proof fn lemma_log_cost_mono(kind: int, items: Seq<Tree>, k: int, new_model: bool)
    requires
        0 <= k <= items.len(),
    ensures
        log_cost(kind, items.take(k), new_model) <= log_cost(kind, items, new_model),
    decreases items.len() - k,
{
    if k == items.len() {
        assert(items.take(k) =~= items);
    } else {
        lemma_log_cost_mono(kind, items, k + 1, new_model);
        assert(items.take(k + 1).drop_last() =~= items.take(k));
    }
}
