// R6: `hasher.update(bytes)` (generic over AsRef<[u8]>) for a byte slice; same ASSUMPTION as update_atom
impl Sha256 {
    #[verifier::external_body]
    pub fn update_slice(&mut self, data: &[u8])
        ensures
            final(self).acc@ == old(self).acc@ + data@,
    {
        unimplemented!()
    }
}

/// the amount operand of coinid: the minimal two's-complement encoding of a value in [0, 2^64)
pub open spec fn amount_ok(b: Seq<u8>) -> bool {
    b.len() == 0 || (b[0] < 0x80 && !(b.len() == 1 && b[0] == 0) && !(b.len() > 1 && b[0] == 0 && b[1] < 0x80) && (b.len() <= 8 || (b.len() == 9 && b[0] == 0)))
}

pub open spec fn coinid_ok(items: Seq<Tree>) -> bool {
    &&& items.len() == 3
    &&& items[0] is Atom
    &&& items[1] is Atom
    &&& items[2] is Atom
    &&& item_len(items[0]) == 32
    &&& item_len(items[1]) == 32
    &&& amount_ok(items[2].bytes())
}
