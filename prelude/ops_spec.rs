// ---------------------------------------------------------------------------------------------
// Operator-level specification vocabulary (C09, C10): argument lists and cost formulas.
// The constants (ARITH_BASE_COST, ...) are the real ones, extracted from /repo on every run; the
// documented values are pinned by lemma_cost_constants_pinned in the unit.
// ---------------------------------------------------------------------------------------------

// ---- unknown operators (C09) ------------------------------------------------------------------

/// add-like base: ARITH_BASE + per argument (per_arg + per_byte * size), where the new model
/// charges the running maximum size and the old model the argument's own size
pub open spec fn unk_add_cost(items: Seq<Tree>, new_model: bool) -> nat
    decreases items.len(),
{
    if items.len() == 0 {
        ARITH_BASE_COST as nat
    } else {
        let prev = unk_add_cost(items.drop_last(), new_model);
        if new_model {
            prev + NEW_ARITH_COST_PER_ARG as nat + NEW_ARITH_COST_PER_BYTE as nat * unk_add_acc(items)
        } else {
            prev + ARITH_COST_PER_ARG as nat + ARITH_COST_PER_BYTE as nat * item_len(items.last())
        }
    }
}

/// running maximum of the argument sizes
pub open spec fn unk_add_acc(items: Seq<Tree>) -> nat
    decreases items.len(),
{
    if items.len() == 0 {
        0
    } else {
        max_nat(unk_add_acc(items.drop_last()), item_len(items.last()))
    }
}

/// sum of the argument sizes (the running operand size of the multiply-like rule)
pub open spec fn unk_sum_len(items: Seq<Tree>) -> nat
    decreases items.len(),
{
    if items.len() == 0 {
        0
    } else {
        unk_sum_len(items.drop_last()) + item_len(items.last())
    }
}

/// multiply-like base
pub open spec fn unk_mul_cost(items: Seq<Tree>, new_model: bool) -> nat
    decreases items.len(),
{
    if items.len() == 0 {
        if new_model {
            NEW_MUL_BASE_COST as nat
        } else {
            MUL_BASE_COST as nat
        }
    } else if items.len() == 1 {
        if new_model {
            NEW_MUL_BASE_COST as nat + item_len(items[0]) * MUL_LINEAR_COST_PER_BYTE as nat
        } else {
            MUL_BASE_COST as nat
        }
    } else {
        let prev = unk_mul_cost(items.drop_last(), new_model);
        let l0 = unk_sum_len(items.drop_last());
        let len = item_len(items.last());
        let div = if new_model {
            NEW_MUL_SQUARE_COST_PER_BYTE_DIVIDER as nat
        } else {
            MUL_SQUARE_COST_PER_BYTE_DIVIDER as nat
        };
        prev + MUL_COST_PER_OP as nat + (l0 + len) * MUL_LINEAR_COST_PER_BYTE as nat + (l0 * len) / div
    }
}

/// concat-like base
pub open spec fn unk_concat_cost(items: Seq<Tree>) -> nat
    decreases items.len(),
{
    if items.len() == 0 {
        CONCAT_BASE_COST as nat
    } else {
        unk_concat_cost(items.drop_last()) + CONCAT_COST_PER_ARG as nat + CONCAT_COST_PER_BYTE as nat * item_len(items.last())
    }
}

pub open spec fn unk_base(cf: u8, items: Seq<Tree>, new_model: bool) -> nat {
    if cf == 1 {
        unk_add_cost(items, new_model)
    } else if cf == 2 {
        unk_mul_cost(items, new_model)
    } else if cf == 3 {
        unk_concat_cost(items)
    } else {
        1
    }
}

/// cost-function bits of an opcode: top two bits of its last byte
pub open spec fn unk_cf(op: Seq<u8>) -> u8 {
    (op.last() & 0xc0u8) >> 6u8
}

/// the multiplier: every byte but the last, big-endian
pub open spec fn unk_multiplier(op: Seq<u8>) -> nat {
    be_val(op.drop_last())
}

/// opcodes that are never evaluated: empty, reserved (ffff..), or longer than 5 bytes
pub open spec fn unk_bad_opcode(op: Seq<u8>) -> bool {
    op.len() == 0 || (op.len() >= 2 && op[0] == 0xff && op[1] == 0xff) || op.len() > 5
}

/// C09, success condition exactly as stated
pub open spec fn unk_ok(op: Seq<u8>, args: Tree, max_cost: u64, new_model: bool) -> bool {
    let items = list_items(args);
    let cf = unk_cf(op);
    &&& !unk_bad_opcode(op)
    &&& (cf == 0 || all_atom_items(items))
    &&& unk_base(cf, items, new_model) <= max_cost
    &&& (unk_multiplier(op) + 1) * unk_base(cf, items, new_model) <= 0xffff_ffff
}

pub open spec fn unk_cost(op: Seq<u8>, args: Tree, new_model: bool) -> nat {
    (unk_multiplier(op) + 1) * unk_base(unk_cf(op), list_items(args), new_model)
}
