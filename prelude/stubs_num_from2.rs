// R7: further integer -> bignum conversions used by the operators (usize / u64 / i64 .into())
impl vstd::std_specs::convert::FromSpecImpl<usize> for Number {
    closed spec fn obeys_from_spec() -> bool {
        true
    }

    closed spec fn from_spec(v: usize) -> Number {
        number_of(v as int)
    }
}

impl From<usize> for Number {
    #[verifier::external_body]
    fn from(v: usize) -> (r: Number) {
        unimplemented!()
    }
}
