
// R7: integer -> bignum conversions (Number::from / .into()); ASSUMED: the value is preserved
pub uninterp spec fn number_of(v: int) -> Number;

#[verifier::external_body]
pub broadcast proof fn axiom_number_of(v: int)
    ensures
        (#[trigger] number_of(v)).val() == v,
{
}

impl vstd::std_specs::convert::FromSpecImpl<u32> for Number {
    closed spec fn obeys_from_spec() -> bool {
        true
    }

    closed spec fn from_spec(v: u32) -> Number {
        number_of(v as int)
    }
}

impl From<u32> for Number {
    #[verifier::external_body]
    fn from(v: u32) -> (r: Number) {
        unimplemented!()
    }
}

impl vstd::std_specs::convert::FromSpecImpl<i32> for Number {
    closed spec fn obeys_from_spec() -> bool {
        true
    }

    closed spec fn from_spec(v: i32) -> Number {
        number_of(v as int)
    }
}

impl From<i32> for Number {
    #[verifier::external_body]
    fn from(v: i32) -> (r: Number) {
        unimplemented!()
    }
}

// R7: integer -> bignum conversions (Malachite::from / .into()); ASSUMED: the value is preserved
pub uninterp spec fn malachite_of(v: int) -> Malachite;

#[verifier::external_body]
pub broadcast proof fn axiom_malachite_of(v: int)
    ensures
        (#[trigger] malachite_of(v)).val() == v,
{
}

impl vstd::std_specs::convert::FromSpecImpl<u32> for Malachite {
    closed spec fn obeys_from_spec() -> bool {
        true
    }

    closed spec fn from_spec(v: u32) -> Malachite {
        malachite_of(v as int)
    }
}

impl From<u32> for Malachite {
    #[verifier::external_body]
    fn from(v: u32) -> (r: Malachite) {
        unimplemented!()
    }
}

impl vstd::std_specs::convert::FromSpecImpl<i32> for Malachite {
    closed spec fn obeys_from_spec() -> bool {
        true
    }

    closed spec fn from_spec(v: i32) -> Malachite {
        malachite_of(v as int)
    }
}

impl From<i32> for Malachite {
    #[verifier::external_body]
    fn from(v: i32) -> (r: Malachite) {
        unimplemented!()
    }
}
