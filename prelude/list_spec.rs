// Argument-list vocabulary shared by the operator and interpreter units

/// the argument list of an operator call: the elements of the (possibly improper) list `t`
pub open spec fn list_items(t: Tree) -> Seq<Tree>
    decreases t,
{
    match t {
        Tree::Atom(_) => Seq::<Tree>::empty(),
        Tree::Pair(f, r) => seq![*f] + list_items(*r),
    }
}

/// the atom that terminates the list
pub open spec fn list_tail(t: Tree) -> Tree
    decreases t,
{
    match t {
        Tree::Atom(_) => t,
        Tree::Pair(_, r) => list_tail(*r),
    }
}

pub open spec fn all_atom_items(items: Seq<Tree>) -> bool {
    forall|i: int| 0 <= i < items.len() ==> (#[trigger] items[i]) is Atom
}

pub open spec fn item_len(t: Tree) -> nat {
    t.bytes().len()
}

pub open spec fn max_nat(a: nat, b: nat) -> nat {
    if a >= b {
        a
    } else {
        b
    }
}

