// ---------------------------------------------------------------------------------------------
// C15 (converse clause) / C16: a decoded tree whose tokens pass the canonical check is exactly the
// serialization of that tree, and vice versa.
// ---------------------------------------------------------------------------------------------

/// a length prefix (first byte b0 with k leading ones, then k-1 bytes) is the one the serializer
/// emits for the size it denotes exactly when the size reaches the minimum for k bytes
#[verifier::spinoff_prover]
#[verifier::rlimit(200)]
pub proof fn lemma_prefix_minimal(b0: u8, rest: Seq<u8>, first: u8)
    requires
        b0 > 0x80,
        1 <= prefix_len_of(b0) <= 6,
        rest.len() == prefix_len_of(b0) - 1,
        dec_size(b0, rest) < 0x4_0000_0000,
    ensures
        ({
            let k = prefix_len_of(b0);
            let size = dec_size(b0, rest);
            let canon = size >= min_size_for_prefix(k) && !(size == 1 && first < 0x80);
            canon <==> (size > 0 && (seq![b0] + rest) =~= enc_prefix(size as u64, first))
        }),
{
    let k = prefix_len_of(b0);
    let size = dec_size(b0, rest);
    let tok = seq![b0] + rest;
    if k == 1 {
        assert(rest =~= Seq::<u8>::empty());
        let m = b0 & (0xffu8 >> 1u8);
        let s1 = seq![b0 & (0xffu8 >> (1nat as u8))] + rest;
        assert(s1 =~= seq![m]);
        lemma_be_val_1(s1);
        assert(b0 > 0x80 && b0 & 0x80 != 0 && b0 & 0x40 == 0 ==> (b0 & (0xffu8 >> 1u8)) >= 1 && (b0 & (0xffu8 >> 1u8)) < 0x40 && (0x80u8 | (b0 & (0xffu8
            >> 1u8))) == b0) by (bit_vector);
        let sz = size as u64;
        assert(sz == m as u64);
        assert(sz < 0x40 ==> (sz as u8) as u64 == sz) by (bit_vector);
        if !(size == 1 && first < 0x80) {
            assert(enc_prefix(sz, first) =~= seq![0x80u8 | (sz as u8)]);
            assert((sz as u8) == m);
        } else {
            assert(enc_prefix(sz, first) =~= Seq::<u8>::empty());
        }
    } else if k == 2 {
        let b1 = rest[0];
        let m = b0 & (0xffu8 >> 2u8);
        let s2 = seq![b0 & (0xffu8 >> (2nat as u8))] + rest;
        assert(s2 =~= seq![m, b1]);
        lemma_be_val_2(s2);
        let sz = size as u64;
        assert(sz == (m as u64) * 256 + b1 as u64);
        assert(b0 & 0x80 != 0 && b0 & 0x40 != 0 && b0 & 0x20 == 0 ==> ({
            let m = b0 & (0xffu8 >> 2u8);
            let sz = add(mul(m as u64, 256u64), b1 as u64);
            sz < 0x2000 && (sz >= 0x40 ==> (0xc0u8 | ((sz >> 8u64) as u8)) == b0 && ((sz & 0xff) as u8) == b1)
        })) by (bit_vector);
        if size >= 0x40 {
            assert(enc_prefix(sz, first) =~= seq![0xc0u8 | ((sz >> 8) as u8), (sz & 0xff) as u8]);
        } else {
            // shorter prefix would do: the serializer's prefix has length <= 1
            assert(enc_prefix(sz, first).len() <= 1);
        }
    } else if k == 3 {
        let b1 = rest[0];
        let b2 = rest[1];
        let m = b0 & (0xffu8 >> 3u8);
        let s3 = seq![b0 & (0xffu8 >> (3nat as u8))] + rest;
        assert(s3 =~= seq![m, b1, b2]);
        lemma_be_val_3(s3);
        let sz = size as u64;
        assert(sz == (m as u64) * 65536 + (b1 as u64) * 256 + b2 as u64);
        assert(b0 & 0x80 != 0 && b0 & 0x40 != 0 && b0 & 0x20 != 0 && b0 & 0x10 == 0 ==> ({
            let m = b0 & (0xffu8 >> 3u8);
            let sz = add(add(mul(m as u64, 65536u64), mul(b1 as u64, 256u64)), b2 as u64);
            sz < 0x10_0000 && (sz >= 0x2000 ==> ((0xe0u64 | (sz >> 16u64)) as u8) == b0 && (((sz >> 8u64) & 0xff) as u8) == b1 && ((sz & 0xff) as u8) == b2)
        })) by (bit_vector);
        if size >= 0x2000 {
            assert(enc_prefix(sz, first) =~= seq![(0xe0 | (sz >> 16)) as u8, ((sz >> 8) & 0xff) as u8, (sz & 0xff) as u8]);
        } else {
            assert(enc_prefix(sz, first).len() <= 2);
        }
    } else if k == 4 {
        let b1 = rest[0];
        let b2 = rest[1];
        let b3 = rest[2];
        let m = b0 & (0xffu8 >> 4u8);
        let s4 = seq![b0 & (0xffu8 >> (4nat as u8))] + rest;
        assert(s4 =~= seq![m, b1, b2, b3]);
        lemma_be_val_4(s4);
        let sz = size as u64;
        assert(sz == (m as u64) * 16777216 + (b1 as u64) * 65536 + (b2 as u64) * 256 + b3 as u64);
        assert(b0 & 0x80 != 0 && b0 & 0x40 != 0 && b0 & 0x20 != 0 && b0 & 0x10 != 0 && b0 & 0x08 == 0 ==> ({
            let m = b0 & (0xffu8 >> 4u8);
            let sz = add(add(add(mul(m as u64, 16777216u64), mul(b1 as u64, 65536u64)), mul(b2 as u64, 256u64)), b3 as u64);
            sz < 0x800_0000 && (sz >= 0x10_0000 ==> ((0xf0u64 | (sz >> 24u64)) as u8) == b0 && (((sz >> 16u64) & 0xff) as u8) == b1 && (((sz >> 8u64) & 0xff) as u8)
                == b2 && ((sz & 0xff) as u8) == b3)
        })) by (bit_vector);
        if size >= 0x10_0000 {
            assert(enc_prefix(sz, first) =~= seq![(0xf0 | (sz >> 24)) as u8, ((sz >> 16) & 0xff) as u8, ((sz >> 8) & 0xff) as u8, (sz & 0xff) as u8]);
        } else {
            assert(enc_prefix(sz, first).len() <= 3);
        }
    } else if k == 5 {
        let b1 = rest[0];
        let b2 = rest[1];
        let b3 = rest[2];
        let b4 = rest[3];
        let m = b0 & (0xffu8 >> 5u8);
        let s5 = seq![b0 & (0xffu8 >> (5nat as u8))] + rest;
        assert(s5 =~= seq![m, b1, b2, b3, b4]);
        lemma_be_val_5(s5);
        let sz = size as u64;
        assert(sz == (m as u64) * 4294967296 + (b1 as u64) * 16777216 + (b2 as u64) * 65536 + (b3 as u64) * 256 + b4 as u64);
        assert(b0 & 0x80 != 0 && b0 & 0x40 != 0 && b0 & 0x20 != 0 && b0 & 0x10 != 0 && b0 & 0x08 != 0 && b0 & 0x04 == 0 ==> ({
            let m = b0 & (0xffu8 >> 5u8);
            let sz = add(add(add(add(mul(m as u64, 4294967296u64), mul(b1 as u64, 16777216u64)), mul(b2 as u64, 65536u64)), mul(b3 as u64, 256u64)), b4 as u64);
            (0x800_0000 <= sz < 0x4_0000_0000 ==> ((0xf8u64 | (sz >> 32u64)) as u8) == b0 && (((sz >> 24u64) & 0xff) as u8) == b1 && (((sz >> 16u64) & 0xff) as u8) == b2
                && (((sz >> 8u64) & 0xff) as u8) == b3 && ((sz & 0xff) as u8) == b4)
        })) by (bit_vector);
        if size >= 0x800_0000 {
            assert(enc_prefix(sz, first) =~= seq![(0xf8 | (sz >> 32)) as u8, ((sz >> 24) & 0xff) as u8, ((sz >> 16) & 0xff) as u8, ((sz >> 8) & 0xff) as u8, (sz & 0xff) as u8]);
        } else {
            assert(enc_prefix(sz, first).len() <= 4);
        }
    } else {
        // six-byte prefixes never denote a canonical size below 2^34, and the serializer never emits one
        assert(enc_prefix(size as u64, first).len() <= 5);
    }
}

/// every atom of a decoded tree is shorter than 2^34 bytes
pub proof fn lemma_dec_tree_atoms_below(s: Seq<u8>, p: nat)
    requires
        dec_tree(s, p) is Some,
    ensures
        atoms_below((dec_tree(s, p)->0).0, 0x4_0000_0000),
    decreases s.len() - p,
{
    if p < s.len() {
        if s[p as int] == 0xff {
            lemma_dec_tree_progress(s, p + 1);
            let p1 = (dec_tree(s, p + 1)->0).1;
            lemma_dec_tree_atoms_below(s, p + 1);
            lemma_dec_tree_atoms_below(s, p1);
        } else {
            lemma_prefix_len_pos(s[p as int]);
            if s[p as int] == 0x80 {
            }
        }
    }
}

/// one atom token: accepted by the canonical check exactly when it is the serializer's encoding
#[verifier::spinoff_prover]
pub proof fn lemma_canon_atom_iff(s: Seq<u8>, p: nat)
    requires
        p < s.len(),
        s[p as int] != 0xff,
        dec_atom(s, p) is Some,
    ensures
        canon_atom_tok(s, p) is Some <==> s.subrange(p as int, (dec_atom(s, p)->0).1 as int) =~= ser_atom((dec_atom(s, p)->0).0),
{
    let b0 = s[p as int];
    let bytes = (dec_atom(s, p)->0).0;
    let p1 = (dec_atom(s, p)->0).1;
    let tok = s.subrange(p as int, p1 as int);
    lemma_prefix_len_pos(b0);
    if b0 <= 0x7f {
        assert(bytes =~= seq![b0]);
        assert(ser_atom(bytes) =~= seq![b0]);
        assert(tok =~= seq![b0]);
    } else if b0 == 0x80 {
        assert(bytes =~= Seq::<u8>::empty());
        assert(ser_atom(bytes) =~= seq![0x80u8]);
        assert(tok =~= seq![0x80u8]);
    } else {
        let k = prefix_len_of(b0);
        let rest = s.subrange(p as int + 1, (p + k) as int);
        let size = dec_size(b0, rest);
        let first = if bytes.len() > 0 { bytes[0] } else { 0u8 };
        assert(bytes =~= s.subrange((p + k) as int, (p + k + size) as int));
        assert(bytes.len() == size);
        if size > 0 {
            assert(bytes[0] == s[(p + k) as int]);
        }
        lemma_prefix_minimal(b0, rest, first);
        let pre = seq![b0] + rest;
        assert(tok =~= pre + bytes);
        let enc = enc_prefix(size as u64, first);
        assert(ser_atom(bytes) =~= enc + bytes);
        // equal suffix: the wholes are equal exactly when the prefixes are
        if pre =~= enc {
            assert(tok =~= ser_atom(bytes));
        }
        if tok =~= ser_atom(bytes) {
            assert(pre.len() == enc.len());
            assert forall|i: int| 0 <= i < pre.len() implies pre[i] == enc[i] by {
                assert(tok[i] == pre[i]);
                assert(ser_atom(bytes)[i] == enc[i]);
            }
            assert(pre =~= enc);
        }
        if size == 0 {
            assert(enc =~= seq![0x80u8]);
            assert(pre[0] == b0);
        }
    }
}

/// two byte strings `ff ++ a ++ b` and `ff ++ c ++ d` that are equal, with |a| == |c|, agree part by part
pub proof fn lemma_marker_split(x: Seq<u8>, y: Seq<u8>, a: Seq<u8>, b: Seq<u8>, c: Seq<u8>, d: Seq<u8>)
    requires
        x =~= seq![0xffu8] + a + b,
        y =~= seq![0xffu8] + c + d,
        x =~= y,
        a.len() == c.len(),
    ensures
        a =~= c,
        b =~= d,
{
    assert(x.len() == 1 + a.len() + b.len());
    assert(y.len() == 1 + c.len() + d.len());
    assert(x.len() == y.len());
    assert(b.len() == d.len());
    assert forall|i: int| 0 <= i < a.len() implies a[i] == c[i] by {
        assert(a[i] == x[i + 1]);
        assert(c[i] == y[i + 1]);
    }
    assert forall|i: int| 0 <= i < b.len() implies b[i] == d[i] by {
        assert(b[i] == x[i + 1 + a.len()]);
        assert(d[i] == y[i + 1 + c.len()]);
    }
}

/// C15 converse / C16: the tokens of a decoded tree are all canonical exactly when the consumed
/// bytes are the serialization of the tree
#[verifier::spinoff_prover]
#[verifier::rlimit(200)]
pub proof fn lemma_canon_tree_iff(s: Seq<u8>, p: nat)
    requires
        dec_tree(s, p) is Some,
    ensures
        canon_tree(s, p) <==> s.subrange(p as int, (dec_tree(s, p)->0).1 as int) =~= ser((dec_tree(s, p)->0).0),
    decreases s.len() - p,
{
    let t = (dec_tree(s, p)->0).0;
    let p1 = (dec_tree(s, p)->0).1;
    lemma_dec_tree_progress(s, p);
    if s[p as int] == 0xff {
        lemma_dec_tree_progress(s, p + 1);
        let l = (dec_tree(s, p + 1)->0).0;
        let pa = (dec_tree(s, p + 1)->0).1;
        lemma_dec_tree_progress(s, pa);
        let r = (dec_tree(s, pa)->0).0;
        assert(p1 == (dec_tree(s, pa)->0).1);
        assert(t == Tree::Pair(Box::new(l), Box::new(r)));
        lemma_canon_tree_iff(s, p + 1);
        lemma_canon_tree_iff(s, pa);
        let whole = s.subrange(p as int, p1 as int);
        let sl = s.subrange(p as int + 1, pa as int);
        let sr = s.subrange(pa as int, p1 as int);
        assert(whole =~= seq![0xffu8] + sl + sr);
        assert(ser(t) =~= seq![0xffu8] + ser(l) + ser(r));
        if sl =~= ser(l) && sr =~= ser(r) {
            assert(whole =~= ser(t));
        }
        if whole =~= ser(t) {
            // unique decoding: the left part of the serialization is decoded to l and ends at pa
            lemma_dec_tree_atoms_below(s, p);
            let pre1 = s.subrange(0, p as int) + seq![0xffu8];
            let post = s.subrange(p1 as int, s.len() as int);
            assert(s =~= pre1 + ser(l) + (ser(r) + post)) by {
                assert(s =~= s.subrange(0, p as int) + whole + post);
            }
            lemma_tree_roundtrip(pre1, l, ser(r) + post);
            assert(pa == p + 1 + ser(l).len());
            lemma_marker_split(whole, ser(t), sl, sr, ser(l), ser(r));
        }
    } else {
        lemma_canon_atom_iff(s, p);
    }
}
