// ---------------------------------------------------------------------------------------------
// Classic CLVM deserialization vocabulary: reading a length prefix (inverse of enc_prefix).
// ---------------------------------------------------------------------------------------------

/// number of leading one bits of the first prefix byte = number of bytes of the prefix
pub open spec fn prefix_len_of(b0: u8) -> nat {
    if b0 & 0x80 == 0 {
        0
    } else if b0 & 0x40 == 0 {
        1
    } else if b0 & 0x20 == 0 {
        2
    } else if b0 & 0x10 == 0 {
        3
    } else if b0 & 0x08 == 0 {
        4
    } else if b0 & 0x04 == 0 {
        5
    } else if b0 & 0x02 == 0 {
        6
    } else if b0 & 0x01 == 0 {
        7
    } else {
        8
    }
}

/// the size a prefix denotes: the bits after the leading ones, big-endian over all prefix bytes
pub open spec fn dec_size(b0: u8, rest: Seq<u8>) -> nat {
    be_val(seq![b0 & (0xffu8 >> (prefix_len_of(b0) as u8))] + rest)
}

/// a byte above 0x7f has at least one leading one bit
pub proof fn lemma_prefix_len_pos(b: u8)
    ensures
        b >= 0x80 <==> prefix_len_of(b) >= 1,
        prefix_len_of(b) <= 8,
{
    assert(b >= 0x80 <==> b & 0x80 != 0) by (bit_vector);
}

/// 0x80 is the one-byte prefix announcing an empty atom
pub proof fn lemma_dec_size_nil()
    ensures
        prefix_len_of(0x80) == 1,
        dec_size(0x80, Seq::<u8>::empty()) == 0,
{
    assert(0x80u8 & 0x80 != 0 && 0x80u8 & 0x40 == 0) by (bit_vector);
    assert(0x80u8 & (0xffu8 >> 1u8) == 0) by (bit_vector);
    let s = seq![0x80u8 & (0xffu8 >> (1nat as u8))] + Seq::<u8>::empty();
    assert(s =~= seq![0u8]);
    lemma_be_val_1(s);
}
