// ---------------------------------------------------------------------------------------------
// Classic CLVM deserialization vocabulary: reading a length prefix (inverse of enc_prefix).
// ---------------------------------------------------------------------------------------------

/// number of leading one bits of the first prefix byte = number of bytes of the prefix
pub open spec fn prefix_len_of(b0: u8) -> nat {
    if b0 & 0x80 == 0 {
        0
    } else if b0 & 0x40 == 0 {
        1
    } else if b0 & 0x20 == 0 {
        2
    } else if b0 & 0x10 == 0 {
        3
    } else if b0 & 0x08 == 0 {
        4
    } else if b0 & 0x04 == 0 {
        5
    } else if b0 & 0x02 == 0 {
        6
    } else if b0 & 0x01 == 0 {
        7
    } else {
        8
    }
}

/// the size a prefix denotes: the bits after the leading ones, big-endian over all prefix bytes
pub open spec fn dec_size(b0: u8, rest: Seq<u8>) -> nat {
    be_val(seq![b0 & (0xffu8 >> (prefix_len_of(b0) as u8))] + rest)
}

/// vstd's u8::leading_ones specification agrees with prefix_len_of (bit-vector case analysis)
pub proof fn lemma_leading_ones(b: u8)
    ensures
        vstd::std_specs::bits::u8_leading_ones(b) == prefix_len_of(b),
{
    vstd::std_specs::bits::axiom_u8_leading_ones(b);
    vstd::std_specs::bits::axiom_u8_leading_zeros(!b);
    let x = !b;
    let z = vstd::std_specs::bits::u8_leading_zeros(x);
    if z == 8 {
        assert(!b == 0 ==> b == 0xff) by (bit_vector);
        assert(0xffu8 & 0x80 != 0 && 0xffu8 & 0x40 != 0 && 0xffu8 & 0x20 != 0 && 0xffu8 & 0x10 != 0 && 0xffu8 & 0x08 != 0 && 0xffu8 & 0x04 != 0 && 0xffu8 & 0x02 != 0 && 0xffu8 & 0x01 != 0) by (bit_vector);
    } else if z == 0 {
        assert(((!b) >> 7u8) & 1u8 == 1u8 ==> b & 0x80 == 0) by (bit_vector);
    } else if z == 1 {
        assert(((!b) >> 7u8) == 0u8 && ((!b) >> 6u8) & 1u8 == 1u8 ==> b & 0x80 != 0 && b & 0x40 == 0) by (bit_vector);
    } else if z == 2 {
        assert(((!b) >> 6u8) == 0u8 && ((!b) >> 5u8) & 1u8 == 1u8 ==> b & 0x80 != 0 && b & 0x40 != 0 && b & 0x20 == 0) by (bit_vector);
    } else if z == 3 {
        assert(((!b) >> 5u8) == 0u8 && ((!b) >> 4u8) & 1u8 == 1u8 ==> b & 0x80 != 0 && b & 0x40 != 0 && b & 0x20 != 0 && b & 0x10 == 0) by (bit_vector);
    } else if z == 4 {
        assert(((!b) >> 4u8) == 0u8 && ((!b) >> 3u8) & 1u8 == 1u8 ==> b & 0x80 != 0 && b & 0x40 != 0 && b & 0x20 != 0 && b & 0x10 != 0 && b & 0x8 == 0) by (bit_vector);
    } else if z == 5 {
        assert(((!b) >> 3u8) == 0u8 && ((!b) >> 2u8) & 1u8 == 1u8 ==> b & 0x80 != 0 && b & 0x40 != 0 && b & 0x20 != 0 && b & 0x10 != 0 && b & 0x8 != 0 && b & 0x4 == 0) by (bit_vector);
    } else if z == 6 {
        assert(((!b) >> 2u8) == 0u8 && ((!b) >> 1u8) & 1u8 == 1u8 ==> b & 0x80 != 0 && b & 0x40 != 0 && b & 0x20 != 0 && b & 0x10 != 0 && b & 0x8 != 0 && b & 0x4 != 0 && b & 0x2 == 0) by (bit_vector);
    } else if z == 7 {
        assert(((!b) >> 1u8) == 0u8 && ((!b) >> 0u8) & 1u8 == 1u8 ==> b & 0x80 != 0 && b & 0x40 != 0 && b & 0x20 != 0 && b & 0x10 != 0 && b & 0x8 != 0 && b & 0x4 != 0 && b & 0x2 != 0 && b & 0x1 == 0) by (bit_vector);
    }
}
