// R7: ordering of byte slices (`v0 > v1` on &[u8] in op_gr_bytes).  ASSUMED library specification:
// the standard library compares slices lexicographically (std docs, `impl Ord for [T]`).
pub open spec fn lex_gt(x: Seq<u8>, y: Seq<u8>) -> bool
    decreases x.len(),
{
    if x.len() == 0 {
        false
    } else if y.len() == 0 {
        true
    } else if x[0] != y[0] {
        x[0] > y[0]
    } else {
        lex_gt(x.drop_first(), y.drop_first())
    }
}

#[verifier::external_body]
pub fn slice_gt(x: &[u8], y: &[u8]) -> (r: bool)
    ensures
        r == lex_gt(x@, y@),
{
    unimplemented!()
}
