// Magnitude bytes of machine integers (the repo's `impl Limbs for u64 / i64`), and their link to the bignum's
// magnitude size for values below 2^64.
use vstd::std_specs::bits::*;

/// ASSUMED (std documentation): usize::div_ceil is the quotient rounded up
pub assume_specification [usize::div_ceil] (a: usize, b: usize) -> (r: usize)
    requires
        b != 0,
    ensures
        r as int == (a as int + b as int - 1) / (b as int),
;

/// ASSUMED (std documentation): i64::unsigned_abs is the absolute value as u64
pub assume_specification [i64::unsigned_abs] (x: i64) -> (r: u64)
    ensures
        r as int == (if x < 0 { -(x as int) } else { x as int }),
;

pub open spec fn mag_bytes(a: nat) -> nat
    decreases a,
{
    if a == 0 { 0 } else { 1 + mag_bytes(a / 256) }
}

pub open spec fn abs_int(v: int) -> nat {
    if v < 0 { (-v) as nat } else { v as nat }
}

pub open spec fn p2(k: nat) -> nat
    decreases k,
{
    if k == 0 { 1 } else { 2 * p2((k - 1) as nat) }
}

pub proof fn lemma_bitlen(x: u64, k: nat)
    requires
        k <= 64,
    ensures
        (64 - u64_leading_zeros(x) <= k) <==> ((x as nat) < p2(k)),
    decreases k,
{
    reveal_with_fuel(u64_leading_zeros, 2);
    reveal_with_fuel(p2, 2);
    if k > 0 { lemma_bitlen(x / 2, (k - 1) as nat); }
}

pub proof fn lemma_p2_vals()
    ensures
        p2(0) == 1, p2(8) == 0x100, p2(16) == 0x1_0000, p2(24) == 0x100_0000, p2(32) == 0x1_0000_0000,
        p2(40) == 0x100_0000_0000, p2(48) == 0x1_0000_0000_0000, p2(56) == 0x100_0000_0000_0000, p2(64) == 0x1_0000_0000_0000_0000,
{
    assert(p2(0) == 1) by (compute_only);
    assert(p2(8) == 0x100) by (compute_only);
    assert(p2(16) == 0x1_0000) by (compute_only);
    assert(p2(24) == 0x100_0000) by (compute_only);
    assert(p2(32) == 0x1_0000_0000) by (compute_only);
    assert(p2(40) == 0x100_0000_0000) by (compute_only);
    assert(p2(48) == 0x1_0000_0000_0000) by (compute_only);
    assert(p2(56) == 0x100_0000_0000_0000) by (compute_only);
    assert(p2(64) == 0x1_0000_0000_0000_0000) by (compute_only);
}

/// magnitude bytes of a 64-bit value from its bit length
pub proof fn lemma_mag_u64(x: u64)
    ensures
        mag_bytes(x as nat) == (64 - u64_leading_zeros(x) + 7) / 8,
        mag_bytes(x as nat) <= 8,
{
    lemma_p2_vals();
    lemma_bitlen(x, 0); lemma_bitlen(x, 8); lemma_bitlen(x, 16); lemma_bitlen(x, 24); lemma_bitlen(x, 32);
    lemma_bitlen(x, 40); lemma_bitlen(x, 48); lemma_bitlen(x, 56); lemma_bitlen(x, 64);
    reveal_with_fuel(mag_bytes, 10);
}

/// ASSUMED library specification (num-bigint `bits().div_ceil(8)`, the repo's `impl Limbs for Number`), stated for values
/// below 2^64 only: the bignum's magnitude size is the number of magnitude bytes.  This is the link between the
/// small-integer fast paths of + and - (machine integers) and the bignum paths; the repo's own unit test
/// test_limbs_agreement samples the same agreement.
#[verifier::external_body]
pub proof fn axiom_limbs_small(v: int)
    requires
        -0x1_0000_0000_0000_0000 < v < 0x1_0000_0000_0000_0000,
    ensures
        limbs_of(v) == mag_bytes(abs_int(v)),
{
}
