// ---------------------------------------------------------------------------------------------
// Interpreter loop vocabulary (C25 stack discipline, C02 budget bound, C31 guards).
// `disc` is the stack-discipline predicate: reading op_stack from its top, every pending
// operation finds the values / environments / guards / checkpoints it pops, and when the
// operation stack is empty exactly one value is left.
// ---------------------------------------------------------------------------------------------

pub open spec fn disc(ops: Seq<Operation>, vals: int, envs: int, guards: int, cps: int) -> bool
    decreases ops.len(),
{
    if ops.len() == 0 {
        vals == 1 && envs == 0 && guards == 0 && cps == 0
    } else {
        let rest = ops.drop_last();
        match ops.last() {
            Operation::Apply => vals >= 2 && envs >= 1 && disc(rest, vals - 1, envs - 1, guards, cps),
            Operation::Cons => vals >= 2 && disc(rest, vals - 1, envs, guards, cps),
            Operation::SwapEval => vals >= 2 && envs >= 1 && disc(rest, vals - 1, envs, guards, cps),
            Operation::ExitGuard => vals >= 1 && guards >= 1 && disc(rest, vals, envs, guards - 1, cps),
            Operation::RestoreAllocator => vals >= 1 && cps >= 1 && disc(rest, vals, envs, guards, cps - 1),
        }
    }
}

pub proof fn lemma_disc_push(ops: Seq<Operation>, op: Operation, vals: int, envs: int, guards: int, cps: int)
    ensures
        disc(ops.push(op), vals, envs, guards, cps) == (match op {
            Operation::Apply => vals >= 2 && envs >= 1 && disc(ops, vals - 1, envs - 1, guards, cps),
            Operation::Cons => vals >= 2 && disc(ops, vals - 1, envs, guards, cps),
            Operation::SwapEval => vals >= 2 && envs >= 1 && disc(ops, vals - 1, envs, guards, cps),
            Operation::ExitGuard => vals >= 1 && guards >= 1 && disc(ops, vals, envs, guards - 1, cps),
            Operation::RestoreAllocator => vals >= 1 && cps >= 1 && disc(ops, vals, envs, guards, cps - 1),
        }),
{
    assert(ops.push(op).drop_last() =~= ops);
    assert(ops.push(op).last() == op);
}

pub proof fn lemma_disc_pop(ops: Seq<Operation>, vals: int, envs: int, guards: int, cps: int)
    requires
        ops.len() > 0,
    ensures
        disc(ops, vals, envs, guards, cps) == (match ops.last() {
            Operation::Apply => vals >= 2 && envs >= 1 && disc(ops.drop_last(), vals - 1, envs - 1, guards, cps),
            Operation::Cons => vals >= 2 && disc(ops.drop_last(), vals - 1, envs, guards, cps),
            Operation::SwapEval => vals >= 2 && envs >= 1 && disc(ops.drop_last(), vals - 1, envs, guards, cps),
            Operation::ExitGuard => vals >= 1 && guards >= 1 && disc(ops.drop_last(), vals, envs, guards - 1, cps),
            Operation::RestoreAllocator => vals >= 1 && cps >= 1 && disc(ops.drop_last(), vals, envs, guards, cps - 1),
        }),
{
}

pub open spec fn all_valid(a: &Allocator, s: Seq<NodePtr>) -> bool {
    forall|i: int| 0 <= i < s.len() ==> a.valid(#[trigger] s[i])
}

/// every pending guard's expected cost is within `bound` (C02: the effective budget never exceeds the budget)
pub open spec fn guards_le(g: Seq<SoftforkGuard>, bound: u64) -> bool {
    forall|i: int| 0 <= i < g.len() ==> (#[trigger] g[i]).expected_cost <= bound
}
