// ---------------------------------------------------------------------------------------------
// Interpreter loop vocabulary (C25 stack discipline, C02 budget bound, C31 guards).
// `disc` is the stack-discipline predicate: reading op_stack from its top, every pending
// operation finds the values / environments / guards / checkpoints it pops, and when the
// operation stack is empty exactly one value is left.
// ---------------------------------------------------------------------------------------------

pub open spec fn disc(ops: Seq<Operation>, vals: int, envs: int, guards: int, cps: int) -> bool
    decreases ops.len(),
{
    if ops.len() == 0 {
        vals == 1 && envs == 0 && guards == 0 && cps == 0
    } else {
        let rest = ops.drop_last();
        match ops.last() {
            Operation::Apply => vals >= 2 && envs >= 1 && disc(rest, vals - 1, envs - 1, guards, cps),
            Operation::Cons => vals >= 2 && disc(rest, vals - 1, envs, guards, cps),
            Operation::SwapEval => vals >= 2 && envs >= 1 && disc(rest, vals - 1, envs, guards, cps),
            Operation::ExitGuard => vals >= 1 && guards >= 1 && disc(rest, vals, envs, guards - 1, cps),
            Operation::RestoreAllocator => vals >= 1 && cps >= 1 && disc(rest, vals, envs, guards, cps - 1),
        }
    }
}

pub proof fn lemma_disc_push(ops: Seq<Operation>, op: Operation, vals: int, envs: int, guards: int, cps: int)
    ensures
        disc(ops.push(op), vals, envs, guards, cps) == (match op {
            Operation::Apply => vals >= 2 && envs >= 1 && disc(ops, vals - 1, envs - 1, guards, cps),
            Operation::Cons => vals >= 2 && disc(ops, vals - 1, envs, guards, cps),
            Operation::SwapEval => vals >= 2 && envs >= 1 && disc(ops, vals - 1, envs, guards, cps),
            Operation::ExitGuard => vals >= 1 && guards >= 1 && disc(ops, vals, envs, guards - 1, cps),
            Operation::RestoreAllocator => vals >= 1 && cps >= 1 && disc(ops, vals, envs, guards, cps - 1),
        }),
{
    assert(ops.push(op).drop_last() =~= ops);
    assert(ops.push(op).last() == op);
}

pub proof fn lemma_disc_pop(ops: Seq<Operation>, vals: int, envs: int, guards: int, cps: int)
    requires
        ops.len() > 0,
    ensures
        disc(ops, vals, envs, guards, cps) == (match ops.last() {
            Operation::Apply => vals >= 2 && envs >= 1 && disc(ops.drop_last(), vals - 1, envs - 1, guards, cps),
            Operation::Cons => vals >= 2 && disc(ops.drop_last(), vals - 1, envs, guards, cps),
            Operation::SwapEval => vals >= 2 && envs >= 1 && disc(ops.drop_last(), vals - 1, envs, guards, cps),
            Operation::ExitGuard => vals >= 1 && guards >= 1 && disc(ops.drop_last(), vals, envs, guards - 1, cps),
            Operation::RestoreAllocator => vals >= 1 && cps >= 1 && disc(ops.drop_last(), vals, envs, guards, cps - 1),
        }),
{
}

pub open spec fn all_valid(a: &Allocator, s: Seq<NodePtr>) -> bool {
    forall|i: int| 0 <= i < s.len() ==> a.valid(#[trigger] s[i])
}

/// every pending guard's expected cost is within `bound` (C02: the effective budget never exceeds the budget)
pub open spec fn guards_le(g: Seq<SoftforkGuard>, bound: u64) -> bool {
    forall|i: int| 0 <= i < g.len() ==> (#[trigger] g[i]).expected_cost <= bound
}

// ---------------------------------------------------------------------------------------------
// Operator slots: for every pending Apply, the value-stack slot that will hold its operator
// (two below the top when the Apply runs) holds an ATOM as soon as it is filled.  This is the
// precondition of Dialect::op (ChiaDialect::op calls atom_len on the operator, which panics on a
// pair); eval_pair's "((X) ...) must be a lone atom" check and eval_op_atom's atom operator are
// what establish it.  `vals` is the value count at the time the top operation runs.
// ---------------------------------------------------------------------------------------------
pub open spec fn opatoms(ops: Seq<Operation>, vals: int, vs: Seq<NodePtr>) -> bool
    decreases ops.len(),
{
    if ops.len() == 0 {
        true
    } else {
        let rest = ops.drop_last();
        match ops.last() {
            Operation::Apply => (0 <= vals - 2 < vs.len() ==> vs[vals - 2].tag() != 0) && opatoms(rest, vals - 1, vs),
            Operation::Cons => opatoms(rest, vals - 1, vs),
            Operation::SwapEval => opatoms(rest, vals - 1, vs),
            Operation::ExitGuard => opatoms(rest, vals, vs),
            Operation::RestoreAllocator => opatoms(rest, vals, vs),
        }
    }
}

pub proof fn lemma_oa_push_op(ops: Seq<Operation>, op: Operation, vals: int, vs: Seq<NodePtr>)
    ensures
        opatoms(ops.push(op), vals, vs) == (match op {
            Operation::Apply => (0 <= vals - 2 < vs.len() ==> vs[vals - 2].tag() != 0) && opatoms(ops, vals - 1, vs),
            Operation::Cons => opatoms(ops, vals - 1, vs),
            Operation::SwapEval => opatoms(ops, vals - 1, vs),
            Operation::ExitGuard => opatoms(ops, vals, vs),
            Operation::RestoreAllocator => opatoms(ops, vals, vs),
        }),
{
    assert(ops.push(op).drop_last() =~= ops);
    assert(ops.push(op).last() == op);
}

pub proof fn lemma_oa_pop_op(ops: Seq<Operation>, vals: int, vs: Seq<NodePtr>)
    requires
        ops.len() > 0,
    ensures
        opatoms(ops, vals, vs) == (match ops.last() {
            Operation::Apply => (0 <= vals - 2 < vs.len() ==> vs[vals - 2].tag() != 0) && opatoms(ops.drop_last(), vals - 1, vs),
            Operation::Cons => opatoms(ops.drop_last(), vals - 1, vs),
            Operation::SwapEval => opatoms(ops.drop_last(), vals - 1, vs),
            Operation::ExitGuard => opatoms(ops.drop_last(), vals, vs),
            Operation::RestoreAllocator => opatoms(ops.drop_last(), vals, vs),
        }),
{
}

/// pushing a value keeps the operator slots: the new slot is either an atom or not an operator slot
pub proof fn lemma_oa_push_val(ops: Seq<Operation>, vals: int, vs: Seq<NodePtr>, x: NodePtr)
    requires
        opatoms(ops, vals, vs),
        x.tag() != 0 || vs.len() >= vals - 1,
    ensures
        opatoms(ops, vals, vs.push(x)),
    decreases ops.len(),
{
    if ops.len() > 0 {
        let rest = ops.drop_last();
        let vs2 = vs.push(x);
        match ops.last() {
            Operation::Apply => {
                lemma_oa_push_val(rest, vals - 1, vs, x);
                if 0 <= vals - 2 < vs2.len() {
                    if vals - 2 < vs.len() {
                        assert(vs2[vals - 2] == vs[vals - 2]);
                    } else {
                        assert(vs2[vals - 2] == x);
                    }
                }
            },
            Operation::Cons => { lemma_oa_push_val(rest, vals - 1, vs, x); },
            Operation::SwapEval => { lemma_oa_push_val(rest, vals - 1, vs, x); },
            Operation::ExitGuard => { lemma_oa_push_val(rest, vals, vs, x); },
            Operation::RestoreAllocator => { lemma_oa_push_val(rest, vals, vs, x); },
        }
    }
}

/// popping a value only forgets a slot
pub proof fn lemma_oa_pop_val(ops: Seq<Operation>, vals: int, vs: Seq<NodePtr>)
    requires
        opatoms(ops, vals, vs),
        vs.len() > 0,
    ensures
        opatoms(ops, vals, vs.drop_last()),
    decreases ops.len(),
{
    if ops.len() > 0 {
        let rest = ops.drop_last();
        let vs2 = vs.drop_last();
        match ops.last() {
            Operation::Apply => {
                lemma_oa_pop_val(rest, vals - 1, vs);
                if 0 <= vals - 2 < vs2.len() {
                    assert(vs2[vals - 2] == vs[vals - 2]);
                }
            },
            Operation::Cons => { lemma_oa_pop_val(rest, vals - 1, vs); },
            Operation::SwapEval => { lemma_oa_pop_val(rest, vals - 1, vs); },
            Operation::ExitGuard => { lemma_oa_pop_val(rest, vals, vs); },
            Operation::RestoreAllocator => { lemma_oa_pop_val(rest, vals, vs); },
        }
    }
}

/// a smaller count only moves the slots down: needed when an operation consumes values
pub proof fn lemma_oa_empty(vals: int, vs: Seq<NodePtr>)
    ensures
        opatoms(Seq::<Operation>::empty(), vals, vs),
{
}

/// C07: the ways a softfork argument list can be rejected.  `canon` is whether the extension
/// number must be canonically encoded; the property demands that rejection does not depend on it
/// once the call succeeds without the restriction (known finding F3: it does).
pub open spec fn sf_args_bad(args: Tree, canon: bool, ext_map: spec_fn(u32) -> OperatorSet) -> bool {
    let items = list_items(args);
    items.len() != 4 || !(items[1] is Atom) || !uint_ok(items[1].bytes(), canon, 4) || ext_map(be_val(items[1].bytes()) as u32) == OperatorSet::Default
}
