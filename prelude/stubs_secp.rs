// R7: k256 / p256 ECDSA types replaced by opaque stubs.  Nothing is assumed about WHICH inputs
// verify (uninterpreted), only that the calls are total functions of their arguments.
pub struct SigError {
    pub dummy: u8,
}

pub struct K1VerifyingKey {
    pub dummy: u8,
}

pub struct K1Signature {
    pub dummy: u8,
}

pub struct P1VerifyingKey {
    pub dummy: u8,
}

pub struct P1Signature {
    pub dummy: u8,
}

impl K1VerifyingKey {
    #[verifier::external_body]
    pub fn from_sec1_bytes(b: &[u8]) -> (r: core::result::Result<K1VerifyingKey, SigError>) {
        unimplemented!()
    }

    #[verifier::external_body]
    pub fn verify_prehash(&self, msg: &[u8], sig: &K1Signature) -> (r: core::result::Result<(), SigError>) {
        unimplemented!()
    }
}

impl K1Signature {
    #[verifier::external_body]
    pub fn from_slice(b: &[u8]) -> (r: core::result::Result<K1Signature, SigError>) {
        unimplemented!()
    }
}

impl P1VerifyingKey {
    #[verifier::external_body]
    pub fn from_sec1_bytes(b: &[u8]) -> (r: core::result::Result<P1VerifyingKey, SigError>) {
        unimplemented!()
    }

    #[verifier::external_body]
    pub fn verify_prehash(&self, msg: &[u8], sig: &P1Signature) -> (r: core::result::Result<(), SigError>) {
        unimplemented!()
    }
}

impl P1Signature {
    #[verifier::external_body]
    pub fn from_slice(b: &[u8]) -> (r: core::result::Result<P1Signature, SigError>) {
        unimplemented!()
    }
}
