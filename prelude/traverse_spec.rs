// ---------------------------------------------------------------------------------------------
// Environment path lookup (src/traverse_path.rs): specification shared by the byte-string walk
// and the inline small-integer walk (C05: the fast path is unobservable; C02/C25: cost, errors).
// ---------------------------------------------------------------------------------------------

/// follow path `p` (binary, least significant bit first, the top set bit is a sentinel) into `t`
pub open spec fn tree_walk(t: Tree, p: nat) -> Option<Tree>
    decreases p,
{
    if p <= 1 {
        Some(t)
    } else {
        match t {
            Tree::Atom(_) => None,
            Tree::Pair(l, r) => tree_walk(if p % 2 == 1 { *r } else { *l }, p / 2),
        }
    }
}

/// number of significant bits
pub open spec fn bit_len(p: nat) -> nat
    decreases p,
{
    if p == 0 { 0 } else { 1 + bit_len(p / 2) }
}

/// number of leading zero bytes
pub open spec fn lead_zeros(s: Seq<u8>) -> nat
    decreases s.len(),
{
    if s.len() == 0 || s[0] != 0 { 0 } else { 1 + lead_zeros(s.drop_first()) }
}

pub open spec fn is_pow2_u8(m: u8) -> bool {
    m == 1 || m == 2 || m == 4 || m == 8 || m == 16 || m == 32 || m == 64 || m == 128
}

pub open spec fn log2_u8(m: u8) -> nat {
    if m == 1 { 0 } else if m == 2 { 1 } else if m == 4 { 2 } else if m == 8 { 3 } else if m == 16 { 4 } else if m == 32 { 5 } else if m == 64 { 6 } else { 7 }
}

/// the cost the statement of the operator gives a path: 44 + 4 per leading zero byte + 4 per
/// path bit below the sentinel (an all-zero path costs 44 + 4 per byte and yields nil)
pub open spec fn path_cost(zeros: nat, p: nat) -> nat {
    (44 + 4 * zeros + 4 * (bit_len(p) - 1)) as nat
}

pub proof fn lemma_lead_zeros(s: Seq<u8>, c: int)
    requires
        0 <= c <= s.len(),
        forall|i: int| 0 <= i < c ==> s[i] == 0,
        c < s.len() ==> s[c] != 0,
    ensures
        lead_zeros(s) == c,
    decreases c,
{
    if c == 0 {
    } else {
        let t = s.drop_first();
        assert forall|i: int| 0 <= i < c - 1 implies t[i] == 0 by { assert(t[i] == s[i + 1]); }
        if c - 1 < t.len() { assert(t[c - 1] == s[c]); }
        lemma_lead_zeros(t, c - 1);
    }
}

/// a prefix consisting of zero bytes has value 0
pub proof fn lemma_be_val_zeros(s: Seq<u8>, k: int)
    requires
        0 <= k <= s.len(),
        forall|i: int| 0 <= i < k ==> s[i] == 0,
    ensures
        be_val(s.take(k)) == 0,
    decreases k,
{
    if k == 0 {
        assert(s.take(0) =~= Seq::<u8>::empty());
    } else {
        lemma_be_val_zeros(s, k - 1);
        assert(s.take(k) =~= s.take(k - 1).push(s[k - 1]));
        lemma_be_val_push(s.take(k - 1), s[k - 1]);
    }
}

/// a prefix that contains a non-zero byte has a positive value
pub proof fn lemma_be_val_pos(s: Seq<u8>, f: int, k: int)
    requires
        0 <= f < k <= s.len(),
        s[f] != 0,
    ensures
        be_val(s.take(k)) >= 1,
    decreases k,
{
    assert(s.take(k) =~= s.take(k - 1).push(s[k - 1]));
    lemma_be_val_push(s.take(k - 1), s[k - 1]);
    if f < k - 1 {
        lemma_be_val_pos(s, f, k - 1);
    }
}

pub proof fn lemma_bit_len_small(v: u32)
    ensures
        v == 0 <==> bit_len(v as nat) == 0,
        bit_len(v as nat) <= 32,
        v < 0x80 ==> bit_len(v as nat) <= 7,
        0x80 <= v < 0x100 ==> bit_len(v as nat) == 8,
        0x100 <= v < 0x8000 ==> 9 <= bit_len(v as nat) <= 15,
        0x8000 <= v < 0x1_0000 ==> bit_len(v as nat) == 16,
        0x1_0000 <= v < 0x80_0000 ==> 17 <= bit_len(v as nat) <= 23,
        0x80_0000 <= v < 0x100_0000 ==> bit_len(v as nat) == 24,
        0x100_0000 <= v < 0x8000_0000 ==> 25 <= bit_len(v as nat) <= 31,
        0x8000_0000 <= v ==> bit_len(v as nat) == 32,
{
    lemma_bit_len_range(v as nat, 33);
}

/// 2^(n-1) <= p < 2^n  <==>  bit_len(p) == n   (stated with explicit powers up to 2^33)
pub open spec fn pow2n(n: nat) -> nat
    decreases n,
{
    if n == 0 { 1 } else { 2 * pow2n((n - 1) as nat) }
}

pub proof fn lemma_bit_len_bounds(p: nat)
    ensures
        p > 0 ==> pow2n((bit_len(p) - 1) as nat) <= p < pow2n(bit_len(p)),
        p == 0 ==> bit_len(p) == 0,
    decreases p,
{
    if p > 0 {
        lemma_bit_len_bounds(p / 2);
        if p / 2 == 0 {
            assert(p == 1);
            reveal_with_fuel(bit_len, 3);
            reveal_with_fuel(pow2n, 3);
        } else {
            assert(bit_len(p) == 1 + bit_len(p / 2));
            assert(pow2n(bit_len(p)) == 2 * pow2n(bit_len(p / 2)));
            assert(pow2n((bit_len(p) - 1) as nat) == 2 * pow2n((bit_len(p / 2) - 1) as nat));
        }
    }
}

pub proof fn lemma_pow2n_mono(a: nat, b: nat)
    requires
        a <= b,
    ensures
        pow2n(a) <= pow2n(b),
    decreases b,
{
    if a < b {
        lemma_pow2n_mono(a, (b - 1) as nat);
    }
}

pub proof fn lemma_bit_len_range(p: nat, cap: nat)
    requires
        cap == 33,
        p < 0x1_0000_0000,
    ensures
        p == 0 <==> bit_len(p) == 0,
        bit_len(p) <= 32,
        p < 0x80 ==> bit_len(p) <= 7,
        0x80 <= p < 0x100 ==> bit_len(p) == 8,
        0x100 <= p < 0x8000 ==> 9 <= bit_len(p) <= 15,
        0x8000 <= p < 0x1_0000 ==> bit_len(p) == 16,
        0x1_0000 <= p < 0x80_0000 ==> 17 <= bit_len(p) <= 23,
        0x80_0000 <= p < 0x100_0000 ==> bit_len(p) == 24,
        0x100_0000 <= p < 0x8000_0000 ==> 25 <= bit_len(p) <= 31,
        0x8000_0000 <= p ==> bit_len(p) == 32,
{
    lemma_bit_len_bounds(p);
    assert(pow2n(7) == 0x80 && pow2n(8) == 0x100 && pow2n(15) == 0x8000 && pow2n(16) == 0x1_0000 && pow2n(23) == 0x80_0000 && pow2n(24) == 0x100_0000 && pow2n(31) == 0x8000_0000 && pow2n(32) == 0x1_0000_0000) by {
        reveal_with_fuel(pow2n, 33);
    }
    let n = bit_len(p);
    if p > 0 {
        // pow2n(n-1) <= p < pow2n(n); compare n against each boundary by monotonicity
        if n >= 33 { lemma_pow2n_mono(32, (n - 1) as nat); }
        if p < 0x80 && n >= 8 { lemma_pow2n_mono(7, (n - 1) as nat); }
        if p >= 0x80 && n <= 7 { lemma_pow2n_mono(n, 7); }
        if p < 0x100 && n >= 9 { lemma_pow2n_mono(8, (n - 1) as nat); }
        if p >= 0x100 && n <= 8 { lemma_pow2n_mono(n, 8); }
        if p < 0x8000 && n >= 16 { lemma_pow2n_mono(15, (n - 1) as nat); }
        if p >= 0x8000 && n <= 15 { lemma_pow2n_mono(n, 15); }
        if p < 0x1_0000 && n >= 17 { lemma_pow2n_mono(16, (n - 1) as nat); }
        if p >= 0x1_0000 && n <= 16 { lemma_pow2n_mono(n, 16); }
        if p < 0x80_0000 && n >= 24 { lemma_pow2n_mono(23, (n - 1) as nat); }
        if p >= 0x80_0000 && n <= 23 { lemma_pow2n_mono(n, 23); }
        if p < 0x100_0000 && n >= 25 { lemma_pow2n_mono(24, (n - 1) as nat); }
        if p >= 0x100_0000 && n <= 24 { lemma_pow2n_mono(n, 24); }
        if p < 0x8000_0000 && n >= 32 { lemma_pow2n_mono(31, (n - 1) as nat); }
        if p >= 0x8000_0000 && n <= 31 { lemma_pow2n_mono(n, 31); }
    }
}

/// C05 (inline path lookup): on the canonical bytes of a small integer, the byte-string walk is
/// charged exactly what the inline walk charges: the leading zero byte appears exactly when the
/// value needs a multiple of 8 bits.
pub proof fn lemma_small_bytes_lead_zeros(v: u32)
    requires
        v < 0x400_0000,
    ensures
        be_val(small_bytes(v)) == v,
        lead_zeros(small_bytes(v)) == (if v != 0 && bit_len(v as nat) % 8 == 0 { 1nat } else { 0nat }),
        v != 0 ==> path_cost(lead_zeros(small_bytes(v)), v as nat) == 44 + 4 * (bit_len(v as nat) - 1) + (if bit_len(v as nat) % 8 == 0 { 4nat } else { 0nat }),
{
    lemma_fits_small_bytes(v);
    lemma_small_bytes_shape(v);
    lemma_bit_len_small(v);
    let s = small_bytes(v);
    if v == 0 {
        assert(lead_zeros(s) == 0);
    } else {
        lemma_small_bytes_lead0(v);
        if s[0] != 0 {
            assert(lead_zeros(s) == 0);
        } else {
            assert(s.len() >= 2);
            assert(s[1] >= 0x80);
            lemma_lead_zeros(s, 1);
        }
    }
}

pub proof fn lemma_small_bytes_lead0(v: u32)
    requires
        0 < v < 0x400_0000,
    ensures
        small_bytes(v)[0] == 0 <==> (0x80 <= v < 0x100 || 0x8000 <= v < 0x1_0000 || 0x80_0000 <= v < 0x100_0000),
{
    assert(0 < v < 0x80 ==> (v as u8) != 0) by (bit_vector);
    assert(0x80 <= v < 0x8000 ==> (((v >> 8u32) as u8) == 0 <==> v < 0x100)) by (bit_vector);
    assert(0x8000 <= v < 0x80_0000 ==> (((v >> 16u32) as u8) == 0 <==> v < 0x1_0000)) by (bit_vector);
    assert(0x80_0000 <= v < 0x400_0000 ==> (((v >> 24u32) as u8) == 0 <==> v < 0x100_0000)) by (bit_vector);
}

/// the remaining path q = pre * (256 / bm) + b / bm while the walk stands at bit `bm` of byte `b`
/// (written out per mask so that every product has a literal factor)
pub open spec fn path_rest(pre: nat, b: u8, bm: u8) -> int {
    if bm == 1 {
        pre * 256 + (b as int)
    } else if bm == 2 {
        pre * 128 + (b as int) / 2
    } else if bm == 4 {
        pre * 64 + (b as int) / 4
    } else if bm == 8 {
        pre * 32 + (b as int) / 8
    } else if bm == 16 {
        pre * 16 + (b as int) / 16
    } else if bm == 32 {
        pre * 8 + (b as int) / 32
    } else if bm == 64 {
        pre * 4 + (b as int) / 64
    } else {
        pre * 2 + (b as int) / 128
    }
}

pub open spec fn bit_of(b: u8, bm: u8) -> bool {
    if bm == 1 {
        (b as int) % 2 == 1
    } else if bm == 2 {
        ((b as int) / 2) % 2 == 1
    } else if bm == 4 {
        ((b as int) / 4) % 2 == 1
    } else if bm == 8 {
        ((b as int) / 8) % 2 == 1
    } else if bm == 16 {
        ((b as int) / 16) % 2 == 1
    } else if bm == 32 {
        ((b as int) / 32) % 2 == 1
    } else if bm == 64 {
        ((b as int) / 64) % 2 == 1
    } else {
        ((b as int) / 128) % 2 == 1
    }
}

pub proof fn lemma_path_rest_step(pre: nat, b: u8, bm: u8)
    requires
        is_pow2_u8(bm),
    ensures
        path_rest(pre, b, bm) >= 0,
        (path_rest(pre, b, bm) % 2 == 1) == bit_of(b, bm),
        bm != 0x80 ==> path_rest(pre, b, bm) / 2 == path_rest(pre, b, (2 * bm) as u8),
        bm == 0x80 ==> path_rest(pre, b, bm) / 2 == pre,
        pre >= 1 ==> path_rest(pre, b, bm) >= 2,
{
    let x = b as int;
    // one mask at a time: every product has a literal factor and every division a literal divisor
    if bm == 1 {
        assert(path_rest(pre, b, 1) == pre * 256 + x);
        assert(path_rest(pre, b, 2) == pre * 128 + x / 2);
    } else if bm == 2 {
        assert(path_rest(pre, b, 2) == pre * 128 + x / 2);
        assert(path_rest(pre, b, 4) == pre * 64 + x / 4);
        assert((x / 2) / 2 == x / 4);
    } else if bm == 4 {
        assert(path_rest(pre, b, 4) == pre * 64 + x / 4);
        assert(path_rest(pre, b, 8) == pre * 32 + x / 8);
        assert((x / 4) / 2 == x / 8);
    } else if bm == 8 {
        assert(path_rest(pre, b, 8) == pre * 32 + x / 8);
        assert(path_rest(pre, b, 16) == pre * 16 + x / 16);
        assert((x / 8) / 2 == x / 16);
    } else if bm == 16 {
        assert(path_rest(pre, b, 16) == pre * 16 + x / 16);
        assert(path_rest(pre, b, 32) == pre * 8 + x / 32);
        assert((x / 16) / 2 == x / 32);
    } else if bm == 32 {
        assert(path_rest(pre, b, 32) == pre * 8 + x / 32);
        assert(path_rest(pre, b, 64) == pre * 4 + x / 64);
        assert((x / 32) / 2 == x / 64);
    } else if bm == 64 {
        assert(path_rest(pre, b, 64) == pre * 4 + x / 64);
        assert(path_rest(pre, b, 128) == pre * 2 + x / 128);
        assert((x / 64) / 2 == x / 128);
    } else {
        assert(bm == 128);
        assert(path_rest(pre, b, 128) == pre * 2 + x / 128);
        assert(x / 128 <= 1);
    }
}

pub proof fn lemma_path_rest_top(b: u8, bm: u8, last: u8)
    requires
        is_pow2_u8(bm),
        is_pow2_u8(last),
        last <= b,
        (b as int) < 2 * (last as int),
    ensures
        bm < last ==> path_rest(0, b, bm) >= 2,
        bm >= last ==> path_rest(0, b, bm) <= 1,
        bm <= last ==> path_rest(0, b, bm) >= 1,
{
}

pub proof fn lemma_bit_and_div(b: u8, bm: u8)
    requires
        is_pow2_u8(bm),
    ensures
        ((b & bm) != 0) == bit_of(b, bm),
{
    assert(((b & 1) != 0) == (b % 2 == 1)) by (bit_vector);
    assert(((b & 2) != 0) == ((b / 2) % 2 == 1)) by (bit_vector);
    assert(((b & 4) != 0) == ((b / 4) % 2 == 1)) by (bit_vector);
    assert(((b & 8) != 0) == ((b / 8) % 2 == 1)) by (bit_vector);
    assert(((b & 16) != 0) == ((b / 16) % 2 == 1)) by (bit_vector);
    assert(((b & 32) != 0) == ((b / 32) % 2 == 1)) by (bit_vector);
    assert(((b & 64) != 0) == ((b / 64) % 2 == 1)) by (bit_vector);
    assert(((b & 128) != 0) == ((b / 128) % 2 == 1)) by (bit_vector);
}

pub proof fn lemma_shl1(bm: u8)
    requires
        is_pow2_u8(bm),
        bm != 0x80,
    ensures
        (bm << 1u8) == 2 * bm,
        is_pow2_u8((bm << 1u8)),
        log2_u8((bm << 1u8)) == log2_u8(bm) + 1,
{
    assert((bm == 1 || bm == 2 || bm == 4 || bm == 8 || bm == 16 || bm == 32 || bm == 64) ==> (bm << 1u8) == mul(2, bm)) by (bit_vector);
}
