// R7: bit operations on the num-bigint stub (ASSUMED library specifications)
//   !n            two's-complement complement: -n - 1
//   n << s, n >> s (s: i32, s >= 0; the library panics on a negative shift, hence the preconditions):
//                 multiplication by 2^s, and division by 2^s rounded towards minus infinity (arithmetic shift)
//   BigUint::from_bytes_be / .into(): the unsigned big-endian value as a Number
pub open spec fn pow2i(s: nat) -> int
    decreases s,
{
    if s == 0 { 1 } else { 2 * pow2i((s - 1) as nat) }
}

pub open spec fn shift_val(v: int, s: int) -> int {
    if s > 0 { v * pow2i(s as nat) } else { v / pow2i((-s) as nat) }
}

pub proof fn lemma_pow2i_pos(s: nat)
    ensures
        pow2i(s) > 0,
    decreases s,
{
    if s > 0 { lemma_pow2i_pos((s - 1) as nat); }
}

impl Number {
    /// R6: `!n` (impl Not for BigInt) made a call
    #[verifier::external_body]
    pub fn not_num(self) -> (r: Number)
        ensures
            r.val() == -self.val() - 1,
    {
        unimplemented!()
    }

    /// R6: `n << s` (impl Shl<i32> for BigInt) made a call
    #[verifier::external_body]
    pub fn shl_i32(self, s: i32) -> (r: Number)
        requires
            s >= 0,
        ensures
            r.val() == self.val() * pow2i(s as nat),
    {
        unimplemented!()
    }

    /// R6: `n >> s` (impl Shr<i32> for BigInt, rounds towards minus infinity) made a call; Verus's `/` on int with a
    /// positive divisor is floored division
    #[verifier::external_body]
    pub fn shr_i32(self, s: i32) -> (r: Number)
        requires
            s >= 0,
        ensures
            r.val() == self.val() / pow2i(s as nat),
    {
        unimplemented!()
    }
}

#[verifier::external_body]
pub struct BigUint {
    _p: core::marker::PhantomData<()>,
}

impl BigUint {
    pub uninterp spec fn uval(&self) -> nat;

    #[verifier::external_body]
    pub fn from_bytes_be(b: &[u8]) -> (r: BigUint)
        ensures
            r.uval() == be_val(b@),
    {
        unimplemented!()
    }

    /// R6: `let i0: Number = i0.into()` (impl From<BigUint> for BigInt) made a call
    #[verifier::external_body]
    pub fn into_number(self) -> (r: Number)
        ensures
            r.val() == self.uval(),
    {
        unimplemented!()
    }
}
