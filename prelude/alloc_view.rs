// ---------------------------------------------------------------------------------------------
// Abstract view of the real `Allocator` (DESIGN.md section 3).  Spec functions over the real
// struct's fields; the struct itself is extracted from /repo/src/allocator.rs on every run.
// ---------------------------------------------------------------------------------------------

pub closed spec fn tag_of(t: ObjectType) -> u32 {
    match t {
        ObjectType::Pair => 0u32,
        ObjectType::Bytes => 1u32,
        ObjectType::SmallAtom => 2u32,
    }
}

impl NodePtr {
    pub closed spec fn tag(self) -> u32 {
        self.0 >> 26u32
    }

    pub closed spec fn idx(self) -> u32 {
        self.0 & 0x3ff_ffffu32
    }

    pub closed spec fn wf(self) -> bool {
        self.tag() <= 2
    }

    pub closed spec fn spec_is_pair(self) -> bool {
        self.tag() == 0
    }

    pub closed spec fn spec_is_atom(self) -> bool {
        self.tag() == 1 || self.tag() == 2
    }

    /// rank used to make `tree` well-founded: pairs rank above every node they can contain
    pub closed spec fn rank(self) -> nat {
        if self.tag() == 0 {
            (self.idx() + 1) as nat
        } else {
            0
        }
    }
}

pub proof fn lemma_nodeptr_bits(t: u32, i: u32)
    requires
        t <= 2,
        i <= 0x3ff_ffffu32,
    ensures
        ((t << 26u32) | i) >> 26u32 == t,
        ((t << 26u32) | i) & 0x3ff_ffffu32 == i,
{
    assert(((t << 26u32) | i) >> 26u32 == t) by (bit_vector)
        requires
            t <= 2,
            i <= 0x3ff_ffffu32,
    ;
    assert(((t << 26u32) | i) & 0x3ff_ffffu32 == i) by (bit_vector)
        requires
            t <= 2,
            i <= 0x3ff_ffffu32,
    ;
}

pub proof fn lemma_nodeptr_eq(a: NodePtr, b: NodePtr)
    requires
        a.tag() == b.tag(),
        a.idx() == b.idx(),
    ensures
        a == b,
{
    let x = a.0;
    let y = b.0;
    assert(x == y) by (bit_vector)
        requires
            x >> 26u32 == y >> 26u32,
            x & 0x3ff_ffffu32 == y & 0x3ff_ffffu32,
    ;
}

pub proof fn lemma_idx_bound(a: NodePtr)
    ensures
        a.idx() <= 0x3ff_ffffu32,
        a.tag() <= 63,
{
    let x = a.0;
    assert(x & 0x3ff_ffffu32 <= 0x3ff_ffffu32) by (bit_vector);
    assert(x >> 26u32 <= 63) by (bit_vector);
}

pub struct Counts {
    pub atoms: nat,
    pub pairs: nat,
    pub heap: nat,
}

impl AtomBuf {
    pub closed spec fn ok(self, heap_len: nat) -> bool {
        self.start <= self.end && self.end as nat <= heap_len
    }
}

impl Allocator {
    // ---- the three reported counts (C12) ----------------------------------------------------
    pub closed spec fn atoms_s(&self) -> nat {
        self.atom_vec@.len() + self.ghost_atoms as nat
    }

    pub closed spec fn pairs_s(&self) -> nat {
        self.pair_vec@.len() + self.ghost_pairs as nat
    }

    pub closed spec fn heap_s(&self) -> nat {
        self.u8_vec@.len() + self.ghost_heap as nat
    }

    pub closed spec fn counts(&self) -> Counts {
        Counts { atoms: self.atoms_s(), pairs: self.pairs_s(), heap: self.heap_s() }
    }

    pub closed spec fn limit_s(&self) -> nat {
        self.heap_limit as nat
    }

    // ---- validity and contents -------------------------------------------------------------
    pub closed spec fn valid(&self, n: NodePtr) -> bool {
        n.tag() == 2 || (n.tag() == 1 && (n.idx() as int) < self.atom_vec@.len()) || (n.tag() == 0 && (
        n.idx() as int) < self.pair_vec@.len())
    }

    /// bytes of an atom node
    pub closed spec fn bytes(&self, n: NodePtr) -> Seq<u8> {
        if n.tag() == 2 {
            small_bytes(n.idx())
        } else if n.tag() == 1 && (n.idx() as int) < self.atom_vec@.len() {
            let ab = self.atom_vec@[n.idx() as int];
            self.u8_vec@.subrange(ab.start as int, ab.end as int)
        } else {
            Seq::<u8>::empty()
        }
    }

    pub closed spec fn pair_ok(&self, i: int) -> bool {
        let p = self.pair_vec@[i];
        self.valid(p.first) && self.valid(p.rest) && p.first.rank() <= i && p.rest.rank() <= i
    }

    /// the tree a node denotes (total; meaningful for valid nodes of an allocator with inv())
    pub closed spec fn tree(&self, n: NodePtr) -> Tree
        decreases n.rank(),
    {
        if n.tag() == 0 && (n.idx() as int) < self.pair_vec@.len() {
            let p = self.pair_vec@[n.idx() as int];
            if p.first.rank() < n.rank() && p.rest.rank() < n.rank() {
                Tree::Pair(Box::new(self.tree(p.first)), Box::new(self.tree(p.rest)))
            } else {
                Tree::nil()
            }
        } else {
            Tree::Atom(self.bytes(n))
        }
    }

    // ---- the representation invariant --------------------------------------------------------
    pub closed spec fn cap_s(&self) -> nat {
        if self.heap_limit >= 1 {
            self.heap_limit as nat
        } else {
            1
        }
    }

    /// Structural invariant.  The heap clause is the bound the real code maintains: the C13
    /// cap plus three bytes per atom ever counted -- the slack is known finding F1 (new_substr
    /// on an inline atom appends without a limit check); `capped()` below is the cap as C13
    /// states it.
    pub closed spec fn inv(&self) -> bool {
        &&& self.atoms_s() <= MAX_NUM_ATOMS
        &&& self.pairs_s() <= MAX_NUM_PAIRS
        &&& self.heap_limit <= u32::MAX
        &&& self.u8_vec@.len() <= u32::MAX
        &&& self.heap_s() <= self.cap_s() + 3 * self.atoms_s()
        &&& forall|i: int| 0 <= i < self.atom_vec@.len() ==> (#[trigger] self.atom_vec@[i]).ok(self.u8_vec@.len())
        &&& forall|i: int| 0 <= i < self.pair_vec@.len() ==> #[trigger] self.pair_ok(i)
        &&& forall|b: [u8; 48]| self.validated_g1_points@.contains(b) ==> valid_g1(#[trigger] b@)
        &&& forall|b: [u8; 96]| self.validated_g2_points@.contains(b) ==> valid_g2(#[trigger] b@)
    }

    /// the C13 heap cap (a fresh allocator already reports one byte, hence max(limit, 1))
    pub closed spec fn capped(&self) -> bool {
        self.heap_s() <= self.cap_s()
    }

    /// nothing changed (failed allocations, C13): every field has the same abstract value
    pub closed spec fn same_state(&self, o: &Allocator) -> bool {
        &&& self.u8_vec@ == o.u8_vec@
        &&& self.pair_vec@ == o.pair_vec@
        &&& self.atom_vec@ == o.atom_vec@
        &&& self.heap_limit == o.heap_limit
        &&& self.ghost_atoms == o.ghost_atoms
        &&& self.ghost_pairs == o.ghost_pairs
        &&& self.ghost_heap == o.ghost_heap
        &&& self.validated_g1_points@ == o.validated_g1_points@
        &&& self.validated_g2_points@ == o.validated_g2_points@
    }

    /// the allocator is `o` cut back to the lengths in cp (restores)
    pub closed spec fn cut_of(&self, o: &Allocator, cp: &TransparentCheckpoint) -> bool {
        &&& self.heap_limit == o.heap_limit
        &&& self.u8_vec@ == o.u8_vec@.take(cp.u8s as int)
        &&& self.pair_vec@ == o.pair_vec@.take(cp.pairs as int)
        &&& self.atom_vec@ == o.atom_vec@.take(cp.atoms as int)
    }

    /// frame for growing operations (C14): every old node keeps its meaning
    pub closed spec fn extends(&self, o: &Allocator) -> bool {
        &&& self.heap_limit == o.heap_limit
        &&& o.atom_vec@.len() <= self.atom_vec@.len()
        &&& o.pair_vec@.len() <= self.pair_vec@.len()
        &&& o.u8_vec@.len() <= self.u8_vec@.len()
        &&& forall|i: int| 0 <= i < o.atom_vec@.len() ==> #[trigger] self.atom_vec@[i] == o.atom_vec@[i]
        &&& forall|i: int| 0 <= i < o.pair_vec@.len() ==> #[trigger] self.pair_vec@[i] == o.pair_vec@[i]
        &&& forall|i: int| 0 <= i < o.u8_vec@.len() ==> #[trigger] self.u8_vec@[i] == o.u8_vec@[i]
    }

    /// consistency of a transparent checkpoint with the current state (section 3)
    pub closed spec fn consistent(&self, cp: &TransparentCheckpoint) -> bool {
        &&& cp.u8s as nat <= self.u8_vec@.len()
        &&& cp.pairs as nat <= self.pair_vec@.len()
        &&& cp.atoms as nat <= self.atom_vec@.len()
        &&& forall|i: int| 0 <= i < cp.atoms ==> (#[trigger] self.atom_vec@[i]).end <= cp.u8s
        &&& forall|i: int|
            0 <= i < cp.pairs ==> {
                let p = #[trigger] self.pair_vec@[i];
                (p.first.tag() == 1 ==> p.first.idx() < cp.atoms) && (p.rest.tag() == 1 ==> p.rest.idx() < cp.atoms)
            }
        &&& forall|i: int|
            cp.atoms <= i < self.atom_vec@.len() ==> {
                let ab = #[trigger] self.atom_vec@[i];
                ab.start < cp.u8s ==> ab.end <= cp.u8s
            }
    }

    /// node valid in the prefix cut at cp
    pub closed spec fn valid_at(&self, cp: &TransparentCheckpoint, n: NodePtr) -> bool {
        n.tag() == 2 || (n.tag() == 1 && n.idx() < cp.atoms) || (n.tag() == 0 && n.idx() < cp.pairs)
    }
}

/// known finding F1: the inputs on which new_substr materialises the slice on the heap without a
/// limit check: the parent is an inline atom and the slice is not itself a minimal small integer
pub open spec fn substr_f1(a: &Allocator, node: NodePtr, start: u32, end: u32) -> bool {
    node.tag() == 2 && start <= end && end as nat <= small_bytes(node.idx()).len() && fits(small_bytes(node.idx()).subrange(start as int, end as int)) is None
}

/// the bytes an `Atom` handle denotes
pub open spec fn atom_view(a: Atom) -> Seq<u8> {
    match a {
        Atom::Borrowed(b) => b@,
        Atom::U32(bytes, len) => if len <= 4 { bytes@.subrange(4 - len as int, 4) } else { Seq::<u8>::empty() },
    }
}

impl Checkpoint {
    pub closed spec fn counts(&self) -> Counts {
        Counts {
            atoms: self.inner.atoms as nat + self.ghost_atoms as nat,
            pairs: self.inner.pairs as nat + self.ghost_pairs as nat,
            heap: self.inner.u8s as nat + self.ghost_heap as nat,
        }
    }

    /// a checkpoint that was taken from an allocator satisfying inv() (its counts obey the caps)
    pub closed spec fn ok_for(&self, a: &Allocator) -> bool {
        &&& a.consistent(&self.inner)
        &&& self.counts().atoms <= MAX_NUM_ATOMS
        &&& self.counts().pairs <= MAX_NUM_PAIRS
        &&& self.counts().heap <= a.cap_s() + 3 * self.counts().atoms
    }
}

pub closed spec fn cp_le(a: &TransparentCheckpoint, b: &TransparentCheckpoint) -> bool {
    a.u8s <= b.u8s && a.pairs <= b.pairs && a.atoms <= b.atoms
}

pub proof fn lemma_tree_cut(a: &Allocator, o: &Allocator, cp: &TransparentCheckpoint, n: NodePtr)
    requires
        o.inv(),
        o.consistent(cp),
        a.cut_of(o, cp),
        o.valid_at(cp, n),
    ensures
        a.valid(n),
        o.valid(n),
        a.tree(n) == o.tree(n),
    decreases n.rank(),
{
    if n.tag() == 0 {
        let i = n.idx() as int;
        assert(o.pair_ok(i));
        let p = o.pair_vec@[i];
        assert(a.pair_vec@[i] == p);
        lemma_idx_bound(p.first);
        lemma_idx_bound(p.rest);
        lemma_tree_cut(a, o, cp, p.first);
        lemma_tree_cut(a, o, cp, p.rest);
    } else if n.tag() == 1 {
        let ab = o.atom_vec@[n.idx() as int];
        assert(ab.ok(o.u8_vec@.len()));
        assert(a.atom_vec@[n.idx() as int] == ab);
        assert(a.u8_vec@.subrange(ab.start as int, ab.end as int) =~= o.u8_vec@.subrange(ab.start as int, ab.end as int));
    }
}

pub proof fn lemma_cut_inv(a: &Allocator, o: &Allocator, cp: &TransparentCheckpoint)
    requires
        o.inv(),
        o.consistent(cp),
        a.cut_of(o, cp),
        a.validated_g1_points@ == o.validated_g1_points@,
        a.validated_g2_points@ == o.validated_g2_points@,
        a.atoms_s() <= MAX_NUM_ATOMS,
        a.pairs_s() <= MAX_NUM_PAIRS,
        a.heap_s() <= a.cap_s() + 3 * a.atoms_s(),
    ensures
        a.inv(),
        forall|n: NodePtr| o.valid_at(cp, n) ==> a.valid(n) && #[trigger] a.tree(n) == o.tree(n),
        forall|c2: &TransparentCheckpoint| cp_le(c2, cp) && #[trigger] o.consistent(c2) ==> a.consistent(c2),
{
    assert forall|i: int| 0 <= i < a.atom_vec@.len() implies (#[trigger] a.atom_vec@[i]).ok(a.u8_vec@.len()) by {
        assert(o.atom_vec@[i].ok(o.u8_vec@.len()));
    }
    assert forall|i: int| 0 <= i < a.pair_vec@.len() implies #[trigger] a.pair_ok(i) by {
        assert(o.pair_ok(i));
        let p = o.pair_vec@[i];
        lemma_idx_bound(p.first);
        lemma_idx_bound(p.rest);
    }
    assert forall|n: NodePtr| o.valid_at(cp, n) implies a.valid(n) && #[trigger] a.tree(n) == o.tree(n) by {
        lemma_tree_cut(a, o, cp, n);
    }
    assert forall|c2: &TransparentCheckpoint| cp_le(c2, cp) && #[trigger] o.consistent(c2) implies a.consistent(c2) by {
        assert forall|i: int| c2.atoms <= i < a.atom_vec@.len() implies ({
            let ab = #[trigger] a.atom_vec@[i];
            ab.start < c2.u8s ==> ab.end <= c2.u8s
        }) by {
            let ab = o.atom_vec@[i];
        }
    }
}

// ---- lemmas about the view -------------------------------------------------------------------
pub proof fn lemma_bytes_extends(a: &Allocator, o: &Allocator, n: NodePtr)
    requires
        o.inv(),
        a.extends(o),
        o.valid(n),
        n.tag() != 0,
    ensures
        a.bytes(n) == o.bytes(n),
{
    if n.tag() == 1 {
        let ab = o.atom_vec@[n.idx() as int];
        assert(ab.ok(o.u8_vec@.len()));
        assert(a.atom_vec@[n.idx() as int] == ab);
        assert(a.u8_vec@.subrange(ab.start as int, ab.end as int) =~= o.u8_vec@.subrange(ab.start as int, ab.end as int));
    }
}

pub proof fn lemma_tree_extends(a: &Allocator, o: &Allocator, n: NodePtr)
    requires
        o.inv(),
        a.extends(o),
        o.valid(n),
    ensures
        a.valid(n),
        a.tree(n) == o.tree(n),
    decreases n.rank(),
{
    if n.tag() == 0 {
        let i = n.idx() as int;
        assert(o.pair_ok(i));
        let p = o.pair_vec@[i];
        assert(a.pair_vec@[i] == p);
        lemma_tree_extends(a, o, p.first);
        lemma_tree_extends(a, o, p.rest);
    } else {
        lemma_bytes_extends(a, o, n);
    }
}

pub proof fn lemma_extends_frame(a: &Allocator, o: &Allocator)
    requires
        o.inv(),
        a.extends(o),
    ensures
        forall|n: NodePtr| o.valid(n) ==> a.valid(n) && #[trigger] a.tree(n) == o.tree(n),
{
    assert forall|n: NodePtr| o.valid(n) implies a.valid(n) && #[trigger] a.tree(n) == o.tree(n) by {
        lemma_tree_extends(a, o, n);
    }
}

/// concatenation of the bytes of a list of atom nodes (new_concat, op_concat)
pub open spec fn concat_bytes(a: &Allocator, nodes: Seq<NodePtr>) -> Seq<u8>
    decreases nodes.len(),
{
    if nodes.len() == 0 {
        Seq::<u8>::empty()
    } else {
        concat_bytes(a, nodes.drop_last()) + a.bytes(nodes.last())
    }
}

pub open spec fn all_atoms(nodes: Seq<NodePtr>) -> bool {
    forall|i: int| 0 <= i < nodes.len() ==> (#[trigger] nodes[i]).tag() != 0
}

/// allocator grew (or stayed): old nodes and old checkpoints keep their meaning
pub open spec fn alloc_grows(n: &Allocator, o: &Allocator) -> bool {
    &&& n.inv()
    &&& n.heap_limit == o.heap_limit
    &&& forall|x: NodePtr| #[trigger] o.valid(x) ==> n.valid(x) && n.tree(x) == o.tree(x)
    &&& forall|c2: &TransparentCheckpoint| #[trigger] o.consistent(c2) ==> n.consistent(c2)
}


