// R7: division on the two bignum libraries.  ASSUMED (library specifications, the same for both
// back ends; C06 is stated modulo exactly these): div_floor / mod_floor / div_mod_floor are
// floored division of the abstract integer values, sign() is NoSign exactly for zero.
#[derive(PartialEq, Eq, Structural)]
pub enum Sign {
    Minus,
    NoSign,
    Plus,
}

/// floored division (quotient rounded towards minus infinity); Verus's `/` and `%` on int are
/// Euclidean, which agrees with floored division for a positive divisor
pub open spec fn floor_div(a: int, b: int) -> int {
    if b > 0 { a / b } else { (-a) / (-b) }
}

pub open spec fn floor_mod(a: int, b: int) -> int {
    a - b * floor_div(a, b)
}

pub open spec fn sign_of(v: int) -> Sign {
    if v < 0 { Sign::Minus } else if v == 0 { Sign::NoSign } else { Sign::Plus }
}

impl Number {
    #[verifier::external_body]
    pub fn sign(&self) -> (r: Sign)
        ensures
            r == sign_of(self.val()),
    {
        unimplemented!()
    }

    #[verifier::external_body]
    pub fn div_floor(&self, o: &Number) -> (r: Number)
        requires
            o.val() != 0,
        ensures
            r.val() == floor_div(self.val(), o.val()),
    {
        unimplemented!()
    }

    #[verifier::external_body]
    pub fn mod_floor(&self, o: &Number) -> (r: Number)
        requires
            o.val() != 0,
        ensures
            r.val() == floor_mod(self.val(), o.val()),
    {
        unimplemented!()
    }

    #[verifier::external_body]
    pub fn div_mod_floor(&self, o: &Number) -> (r: (Number, Number))
        requires
            o.val() != 0,
        ensures
            r.0.val() == floor_div(self.val(), o.val()),
            r.1.val() == floor_mod(self.val(), o.val()),
    {
        unimplemented!()
    }
}

impl Malachite {
    #[verifier::external_body]
    pub fn sign(&self) -> (r: Sign)
        ensures
            r == sign_of(self.val()),
    {
        unimplemented!()
    }

    #[verifier::external_body]
    pub fn div_floor(&self, o: &Malachite) -> (r: Malachite)
        requires
            o.val() != 0,
        ensures
            r.val() == floor_div(self.val(), o.val()),
    {
        unimplemented!()
    }

    #[verifier::external_body]
    pub fn mod_floor(&self, o: &Malachite) -> (r: Malachite)
        requires
            o.val() != 0,
        ensures
            r.val() == floor_mod(self.val(), o.val()),
    {
        unimplemented!()
    }

    #[verifier::external_body]
    pub fn div_mod_floor(&self, o: &Malachite) -> (r: (Malachite, Malachite))
        requires
            o.val() != 0,
        ensures
            r.0.val() == floor_div(self.val(), o.val()),
            r.1.val() == floor_mod(self.val(), o.val()),
    {
        unimplemented!()
    }
}

/// the operands the division operators accept: two atoms, within the pre-hard-fork size limits
/// that DISABLE_OP / LIMITS switch on
pub open spec fn div_args_ok(items: Seq<Tree>, flags: ClvmFlags) -> bool {
    &&& items.len() == 2
    &&& items[0] is Atom
    &&& items[1] is Atom
    &&& !(flags.has(ClvmFlags::DISABLE_OP) && !flags.has(ClvmFlags::NEW_COST_MODEL) && item_len(items[0]) > 2048)
    &&& !(flags.has(ClvmFlags::LIMITS) && !flags.has(ClvmFlags::NEW_COST_MODEL) && (item_len(items[0]) > 256 || item_len(items[1]) > 1024))
}

/// documented cost before the result allocation
pub open spec fn div_cost(l0: nat, l1: nat, new_model: bool, base: nat, per_byte: nat) -> nat {
    if new_model {
        1000 + (l0 + l1) * 50 + (l0 * l1) / 10
    } else {
        base + (l0 + l1) * per_byte
    }
}

// modpow: ASSUMED library specification, the same for both back ends (C06 is stated modulo exactly
// this): for a non-negative exponent and a non-zero modulus both libraries compute ONE function of
// the three abstract integer values (its definition, including the sign convention for a negative
// modulus, is left uninterpreted).  The preconditions are the libraries' panics.
pub uninterp spec fn modpow_val(b: int, e: int, m: int) -> int;

impl Number {
    #[verifier::external_body]
    pub fn modpow(&self, e: &Number, m: &Number) -> (r: Number)
        requires
            e.val() >= 0,
            m.val() != 0,
        ensures
            r.val() == modpow_val(self.val(), e.val(), m.val()),
    {
        unimplemented!()
    }
}

impl Malachite {
    #[verifier::external_body]
    pub fn modpow(&self, e: &Malachite, m: &Malachite) -> (r: Malachite)
        requires
            e.val() >= 0,
            m.val() != 0,
        ensures
            r.val() == modpow_val(self.val(), e.val(), m.val()),
    {
        unimplemented!()
    }
}

/// documented cost of modpow before the result allocation (docs/cost-model.md)
pub open spec fn modpow_cost(b: nat, e: nat, m: nat, new_model: bool) -> nat {
    if new_model {
        17000 + (e * 8) * (m * m + 4000) + b * m
    } else {
        17000 + b * 38 + (e * e) * 3 + (m * m) * 21
    }
}

pub open spec fn modpow_args_ok(items: Seq<Tree>) -> bool {
    &&& items.len() == 3
    &&& items[0] is Atom
    &&& items[1] is Atom
    &&& items[2] is Atom
}

/// the pre-hard-fork size limit LIMITS switches on
pub open spec fn modpow_limits_bad(items: Seq<Tree>, flags: ClvmFlags) -> bool {
    flags.has(ClvmFlags::LIMITS) && !flags.has(ClvmFlags::NEW_COST_MODEL) && (item_len(items[0]) > 256 || item_len(items[1]) > 256 || item_len(items[2]) > 256)
}
