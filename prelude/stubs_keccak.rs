// R7: sha3::Keccak256 replaced by a stub that records what was fed to it (ASSUMED: streaming Keccak-256 equals
// Keccak-256 of the concatenation, and the digest has 32 bytes; keccak256 itself is uninterpreted: C32 is about the primitive)
pub uninterp spec fn keccak256(s: Seq<u8>) -> Seq<u8>;

#[verifier::external_body]
pub broadcast proof fn axiom_keccak256_len(s: Seq<u8>)
    ensures
        (#[trigger] keccak256(s)).len() == 32,
{
}

pub struct Keccak256 {
    pub acc: Ghost<Seq<u8>>,
}

impl Keccak256 {
    #[verifier::external_body]
    pub fn new() -> (r: Keccak256)
        ensures
            r.acc@ == Seq::<u8>::empty(),
    {
        unimplemented!()
    }

    /// R6: `update(atom)` (generic over AsRef<[u8]>) for an Atom handle
    #[verifier::external_body]
    pub fn update_atom(&mut self, data: Atom<'_>)
        ensures
            final(self).acc@ == old(self).acc@ + atom_view(data),
    {
        unimplemented!()
    }

    #[verifier::external_body]
    pub fn finalize(self) -> (r: [u8; 32])
        ensures
            r@ == keccak256(self.acc@),
    {
        unimplemented!()
    }
}
