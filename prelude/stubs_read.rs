// ---------------------------------------------------------------------------------------------
// R7/R10: std::io::Read, SeekFrom and Cursor<&[u8]> as stubs with ASSUMED contracts (std docs).
// A reader is modelled as an immutable byte source and a count of consumed bytes.
// ---------------------------------------------------------------------------------------------
pub trait Read {
    /// all the bytes of the underlying source
    spec fn source(&self) -> Seq<u8>;

    /// how many of them have been consumed (may exceed the length for a seekable source)
    spec fn consumed(&self) -> nat;

    /// read_exact either fills the whole buffer with the next bytes and consumes exactly those, or
    /// fails (UnexpectedEof) leaving an unspecified position
    fn read_exact(&mut self, buf: &mut [u8]) -> (r: IoResult<()>)
        ensures
            final(buf)@.len() == old(buf)@.len(),
            final(self).source() == old(self).source(),
            old(self).consumed() + old(buf)@.len() <= old(self).source().len() ==> r is Ok && final(buf)@ == old(self).source().subrange(
                old(self).consumed() as int,
                (old(self).consumed() + old(buf)@.len()) as int,
            ) && final(self).consumed() == old(self).consumed() + old(buf)@.len(),
            old(self).consumed() + old(buf)@.len() > old(self).source().len() ==> r is Err,
            r is Err ==> r->Err_0.k == ErrorKind::UnexpectedEof,
    ;
}

pub enum SeekFrom {
    Start(u64),
    End(i64),
    Current(i64),
}

impl<'a> Cursor<&'a [u8]> {
    #[verifier::external_body]
    pub fn new(b: &'a [u8]) -> (r: Cursor<&'a [u8]>)
        ensures
            r.inner@ == b@,
            r.pos == 0,
    {
        unimplemented!()
    }

    #[verifier::external_body]
    pub fn position(&self) -> (r: u64)
        ensures
            r == self.pos,
    {
        unimplemented!()
    }

    #[verifier::external_body]
    pub fn set_position(&mut self, p: u64)
        ensures
            final(self).pos == p,
            final(self).inner@ == old(self).inner@,
    {
        unimplemented!()
    }

    #[verifier::external_body]
    pub fn get_ref(&self) -> (r: &&'a [u8])
        ensures
            (**r)@ == self.inner@,
    {
        unimplemented!()
    }

    /// Seek relative to the current position: positions past the end are allowed; a negative or
    /// overflowing target is an error and leaves the position unchanged
    #[verifier::external_body]
    pub fn seek(&mut self, s: SeekFrom) -> (r: IoResult<u64>)
        ensures
            final(self).inner@ == old(self).inner@,
            s matches SeekFrom::Current(n) ==> (if 0 <= old(self).pos + n <= u64::MAX {
                r is Ok && final(self).pos == old(self).pos + n && r->Ok_0 == final(self).pos
            } else {
                r is Err && final(self).pos == old(self).pos
            }),
    {
        unimplemented!()
    }
}

impl<'a> Read for Cursor<&'a [u8]> {
    spec fn source(&self) -> Seq<u8> {
        self.inner@
    }

    spec fn consumed(&self) -> nat {
        self.pos as nat
    }

    #[verifier::external_body]
    fn read_exact(&mut self, buf: &mut [u8]) -> (r: IoResult<()>) {
        unimplemented!()
    }
}
