// ---------------------------------------------------------------------------------------------
// C15: the classic grammar decodes what the classic serializer writes (specification level;
// node_to_stream is proved to write ser(tree), node_from_stream to compute dec_tree).
// ---------------------------------------------------------------------------------------------

/// the length prefix the encoder emits is decoded back to the size (every prefix length)
pub proof fn lemma_prefix_roundtrip(size: u64, first: u8)
    requires
        0 < size < 0x4_0000_0000,
        !(size == 1 && first < 0x80),
    ensures
        ({
            let e = enc_prefix(size, first);
            &&& e.len() >= 1
            &&& e[0] > 0x80 || (e[0] == 0x80 && false)
            &&& e[0] != 0xff
            &&& prefix_len_of(e[0]) == e.len()
            &&& e.len() <= 5
            &&& dec_size(e[0], e.subrange(1, e.len() as int)) == size
        }),
{
    let e = enc_prefix(size, first);
    if size < 0x40 {
        let b0 = 0x80u8 | (size as u8);
        assert(size < 0x40 && size > 0 ==> ({
            let b0 = 0x80u8 | (size as u8);
            b0 > 0x80 && b0 != 0xff && b0 & 0x80 != 0 && b0 & 0x40 == 0 && (b0 & (0xffu8 >> 1u8)) as u64 == size
        })) by (bit_vector);
        assert(e.subrange(1, 1) =~= Seq::<u8>::empty());
        let s1 = seq![b0 & (0xffu8 >> (1nat as u8))] + e.subrange(1, 1);
        assert(s1 =~= seq![b0 & (0xffu8 >> 1u8)]);
        lemma_be_val_1(s1);
    } else if size < 0x2000 {
        let b0 = 0xc0u8 | ((size >> 8) as u8);
        let b1 = (size & 0xff) as u8;
        assert(0x40 <= size < 0x2000 ==> ({
            let b0 = 0xc0u8 | ((size >> 8u64) as u8);
            let b1 = (size & 0xff) as u8;
            b0 > 0x80 && b0 != 0xff && b0 & 0x80 != 0 && b0 & 0x40 != 0 && b0 & 0x20 == 0 && ((b0 & (0xffu8 >> 2u8)) as u64) * 256 + b1 as u64 == size
        })) by (bit_vector);
        assert(e.subrange(1, 2) =~= seq![b1]);
        let s2 = seq![b0 & (0xffu8 >> (2nat as u8))] + e.subrange(1, 2);
        assert(s2 =~= seq![b0 & (0xffu8 >> 2u8), b1]);
        lemma_be_val_2(s2);
    } else if size < 0x10_0000 {
        let b0 = (0xe0 | (size >> 16)) as u8;
        let b1 = ((size >> 8) & 0xff) as u8;
        let b2 = (size & 0xff) as u8;
        assert(0x2000 <= size < 0x10_0000 ==> ({
            let b0 = (0xe0u64 | (size >> 16u64)) as u8;
            let b1 = ((size >> 8u64) & 0xff) as u8;
            let b2 = (size & 0xff) as u8;
            b0 > 0x80 && b0 != 0xff && b0 & 0x80 != 0 && b0 & 0x40 != 0 && b0 & 0x20 != 0 && b0 & 0x10 == 0 && ((b0 & (0xffu8 >> 3u8)) as u64) * 65536 + (b1 as u64) * 256
                + b2 as u64 == size
        })) by (bit_vector);
        assert(e.subrange(1, 3) =~= seq![b1, b2]);
        let s3 = seq![b0 & (0xffu8 >> (3nat as u8))] + e.subrange(1, 3);
        assert(s3 =~= seq![b0 & (0xffu8 >> 3u8), b1, b2]);
        lemma_be_val_3(s3);
    } else if size < 0x800_0000 {
        let b0 = (0xf0 | (size >> 24)) as u8;
        let b1 = ((size >> 16) & 0xff) as u8;
        let b2 = ((size >> 8) & 0xff) as u8;
        let b3 = (size & 0xff) as u8;
        assert(0x10_0000 <= size < 0x800_0000 ==> ({
            let b0 = (0xf0u64 | (size >> 24u64)) as u8;
            let b1 = ((size >> 16u64) & 0xff) as u8;
            let b2 = ((size >> 8u64) & 0xff) as u8;
            let b3 = (size & 0xff) as u8;
            b0 > 0x80 && b0 != 0xff && b0 & 0x80 != 0 && b0 & 0x40 != 0 && b0 & 0x20 != 0 && b0 & 0x10 != 0 && b0 & 0x08 == 0 && ((b0 & (0xffu8 >> 4u8)) as u64)
                * 16777216 + (b1 as u64) * 65536 + (b2 as u64) * 256 + b3 as u64 == size
        })) by (bit_vector);
        assert(e.subrange(1, 4) =~= seq![b1, b2, b3]);
        let s4 = seq![b0 & (0xffu8 >> (4nat as u8))] + e.subrange(1, 4);
        assert(s4 =~= seq![b0 & (0xffu8 >> 4u8), b1, b2, b3]);
        lemma_be_val_4(s4);
    } else {
        let b0 = (0xf8 | (size >> 32)) as u8;
        let b1 = ((size >> 24) & 0xff) as u8;
        let b2 = ((size >> 16) & 0xff) as u8;
        let b3 = ((size >> 8) & 0xff) as u8;
        let b4 = (size & 0xff) as u8;
        assert(0x800_0000 <= size < 0x4_0000_0000 ==> ({
            let b0 = (0xf8u64 | (size >> 32u64)) as u8;
            let b1 = ((size >> 24u64) & 0xff) as u8;
            let b2 = ((size >> 16u64) & 0xff) as u8;
            let b3 = ((size >> 8u64) & 0xff) as u8;
            let b4 = (size & 0xff) as u8;
            b0 > 0x80 && b0 != 0xff && b0 & 0x80 != 0 && b0 & 0x40 != 0 && b0 & 0x20 != 0 && b0 & 0x10 != 0 && b0 & 0x08 != 0 && b0 & 0x04 == 0 && ((b0 & (0xffu8
                >> 5u8)) as u64) * 4294967296 + (b1 as u64) * 16777216 + (b2 as u64) * 65536 + (b3 as u64) * 256 + b4 as u64 == size
        })) by (bit_vector);
        assert(e.subrange(1, 5) =~= seq![b1, b2, b3, b4]);
        let s5 = seq![b0 & (0xffu8 >> (5nat as u8))] + e.subrange(1, 5);
        assert(s5 =~= seq![b0 & (0xffu8 >> 5u8), b1, b2, b3, b4]);
        lemma_be_val_5(s5);
    }
}

/// one serialized atom, embedded anywhere in a buffer, is decoded back
pub proof fn lemma_atom_roundtrip(pre: Seq<u8>, b: Seq<u8>, post: Seq<u8>)
    requires
        b.len() < 0x4_0000_0000,
    ensures
        ser_atom(b).len() >= 1,
        ser_atom(b)[0] != 0xff,
        dec_atom(pre + ser_atom(b) + post, pre.len()) == Some((b, (pre.len() + ser_atom(b).len()) as nat)),
{
    let sa = ser_atom(b);
    let s = pre + sa + post;
    let p = pre.len();
    if b.len() == 0 {
        assert(sa =~= seq![0x80u8]);
        assert(s[p as int] == sa[0]);
    } else if b.len() == 1 && b[0] < 0x80 {
        assert(sa =~= seq![b[0]]);
        assert(s[p as int] == sa[0]);
        assert(b =~= seq![b[0]]);
    } else {
        let size = b.len() as u64;
        let e = enc_prefix(size, b[0]);
        lemma_prefix_roundtrip(size, b[0]);
        let k = e.len();
        assert(sa =~= e + b);
        assert(s[p as int] == e[0]);
        assert(s.subrange(p as int + 1, (p + k) as int) =~= e.subrange(1, k as int));
        assert(s.subrange((p + k) as int, (p + k + size) as int) =~= b);
    }
}

/// C15: decoding a serialized tree (embedded anywhere) yields the tree and consumes exactly its bytes
pub proof fn lemma_tree_roundtrip(pre: Seq<u8>, t: Tree, post: Seq<u8>)
    requires
        atoms_below(t, 0x4_0000_0000),
    ensures
        dec_tree(pre + ser(t) + post, pre.len()) == Some((t, (pre.len() + ser(t).len()) as nat)),
        ser(t).len() >= 1,
    decreases t,
{
    let s = pre + ser(t) + post;
    let p = pre.len();
    match t {
        Tree::Atom(b) => {
            lemma_atom_roundtrip(pre, b, post);
            assert(s[p as int] == ser_atom(b)[0]);
        },
        Tree::Pair(l, r) => {
            let sl = ser(*l);
            let sr = ser(*r);
            assert(ser(t) =~= seq![0xffu8] + sl + sr);
            assert(s[p as int] == 0xff);
            let pre1 = pre + seq![0xffu8];
            assert(s =~= pre1 + sl + (sr + post));
            lemma_tree_roundtrip(pre1, *l, sr + post);
            let pre2 = pre1 + sl;
            assert(s =~= pre2 + sr + post);
            lemma_tree_roundtrip(pre2, *r, post);
            assert(dec_tree(s, p + 1) == Some((*l, (p + 1 + sl.len()) as nat)));
            assert(dec_tree(s, (p + 1 + sl.len()) as nat) == Some((*r, (p + 1 + sl.len() + sr.len()) as nat)));
        },
    }
}
