// ---------------------------------------------------------------------------------------------
// Classic CLVM serialization, as a specification (docs/serialization; statement of C15/C29).
// ---------------------------------------------------------------------------------------------

/// length prefix of an atom of `size` bytes whose first byte is `first` (size < 2^34)
pub open spec fn enc_prefix(size: u64, first: u8) -> Seq<u8> {
    if size == 0 {
        seq![0x80u8]
    } else if size == 1 && first < 0x80 {
        Seq::<u8>::empty()
    } else if size < 0x40 {
        seq![0x80u8 | (size as u8)]
    } else if size < 0x2000 {
        seq![0xc0u8 | ((size >> 8) as u8), (size & 0xff) as u8]
    } else if size < 0x10_0000 {
        seq![(0xe0 | (size >> 16)) as u8, ((size >> 8) & 0xff) as u8, (size & 0xff) as u8]
    } else if size < 0x800_0000 {
        seq![(0xf0 | (size >> 24)) as u8, ((size >> 16) & 0xff) as u8, ((size >> 8) & 0xff) as u8, (size & 0xff) as u8]
    } else {
        seq![
            (0xf8 | (size >> 32)) as u8,
            ((size >> 24) & 0xff) as u8,
            ((size >> 16) & 0xff) as u8,
            ((size >> 8) & 0xff) as u8,
            (size & 0xff) as u8,
        ]
    }
}

pub open spec fn ser_atom(b: Seq<u8>) -> Seq<u8> {
    enc_prefix(b.len() as u64, if b.len() > 0 { b[0] } else { 0u8 }) + b
}

pub open spec fn ser(t: Tree) -> Seq<u8>
    decreases t,
{
    match t {
        Tree::Atom(b) => ser_atom(b),
        Tree::Pair(l, r) => seq![0xffu8] + ser(*l) + ser(*r),
    }
}

/// total number of atom bytes in a tree is bounded by the allocator's heap, so every atom the
/// serializer meets is far below the 2^34 prefix limit; this predicate states that bound
pub open spec fn atoms_below(t: Tree, bound: nat) -> bool
    decreases t,
{
    match t {
        Tree::Atom(b) => b.len() < bound,
        Tree::Pair(l, r) => atoms_below(*l, bound) && atoms_below(*r, bound),
    }
}
