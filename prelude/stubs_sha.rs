// R7: chia_sha2::Sha256 replaced by a stub that records what was fed to it (ASSUMED: streaming
// SHA-256 equals SHA-256 of the concatenation; sha256 itself is uninterpreted, see treehash_spec.rs)
pub struct Sha256 {
    pub acc: Ghost<Seq<u8>>,
}

impl Sha256 {
    #[verifier::external_body]
    pub fn new() -> (r: Sha256)
        ensures
            r.acc@ == Seq::<u8>::empty(),
    {
        unimplemented!()
    }

    /// R6: `update(atom)` (generic over AsRef<[u8]>) for an Atom handle
    #[verifier::external_body]
    pub fn update_atom(&mut self, data: Atom<'_>)
        ensures
            final(self).acc@ == old(self).acc@ + atom_view(data),
    {
        unimplemented!()
    }

    #[verifier::external_body]
    pub fn finalize(self) -> (r: [u8; 32])
        ensures
            r@ == sha256(self.acc@),
    {
        unimplemented!()
    }
}

/// all the bytes of the items, in order
pub open spec fn items_cat(items: Seq<Tree>) -> Seq<u8>
    decreases items.len(),
{
    if items.len() == 0 {
        Seq::<u8>::empty()
    } else {
        items_cat(items.drop_last()) + items.last().bytes()
    }
}

/// documented cost of sha256 before the result allocation: base + per argument + per byte
pub open spec fn sha_cost(items: Seq<Tree>, base: nat, per_arg: nat, per_byte: nat) -> nat
    decreases items.len(),
{
    if items.len() == 0 {
        base
    } else {
        sha_cost(items.drop_last(), base, per_arg, per_byte) + per_arg + per_byte * item_len(items.last())
    }
}

pub proof fn lemma_sha_cost_mono(items: Seq<Tree>, k: int, base: nat, per_arg: nat, per_byte: nat)
    requires
        0 <= k <= items.len(),
    ensures
        sha_cost(items.take(k), base, per_arg, per_byte) <= sha_cost(items, base, per_arg, per_byte),
    decreases items.len() - k,
{
    if k == items.len() {
        assert(items.take(k) =~= items);
    } else {
        lemma_sha_cost_mono(items, k + 1, base, per_arg, per_byte);
        assert(items.take(k + 1).drop_last() =~= items.take(k));
    }
}
