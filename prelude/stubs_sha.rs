// R7: chia_sha2::Sha256 replaced by a stub that records what was fed to it (ASSUMED: streaming
// SHA-256 equals SHA-256 of the concatenation; sha256 itself is uninterpreted, see treehash_spec.rs)
pub struct Sha256 {
    pub acc: Ghost<Seq<u8>>,
}

impl Sha256 {
    #[verifier::external_body]
    pub fn new() -> (r: Sha256)
        ensures
            r.acc@ == Seq::<u8>::empty(),
    {
        unimplemented!()
    }

    /// R6: `update(atom)` (generic over AsRef<[u8]>) for an Atom handle
    #[verifier::external_body]
    pub fn update_atom(&mut self, data: Atom<'_>)
        ensures
            final(self).acc@ == old(self).acc@ + atom_view(data),
    {
        unimplemented!()
    }

    #[verifier::external_body]
    pub fn finalize(self) -> (r: [u8; 32])
        ensures
            r@ == sha256(self.acc@),
    {
        unimplemented!()
    }
}

/// all the bytes of the items, in order
pub open spec fn items_cat(items: Seq<Tree>) -> Seq<u8>
    decreases items.len(),
{
    if items.len() == 0 {
        Seq::<u8>::empty()
    } else {
        items_cat(items.drop_last()) + items.last().bytes()
    }
}

/// documented cost of sha256 before the result allocation: base + per argument + per byte
pub open spec fn sha_cost(items: Seq<Tree>, base: nat, per_arg: nat, per_byte: nat) -> nat
    decreases items.len(),
{
    if items.len() == 0 {
        base
    } else {
        sha_cost(items.drop_last(), base, per_arg, per_byte) + per_arg + per_byte * item_len(items.last())
    }
}

pub proof fn lemma_sha_cost_mono(items: Seq<Tree>, k: int, base: nat, per_arg: nat, per_byte: nat)
    requires
        0 <= k <= items.len(),
    ensures
        sha_cost(items.take(k), base, per_arg, per_byte) <= sha_cost(items, base, per_arg, per_byte),
    decreases items.len() - k,
{
    if k == items.len() {
        assert(items.take(k) =~= items);
    } else {
        lemma_sha_cost_mono(items, k + 1, base, per_arg, per_byte);
        assert(items.take(k + 1).drop_last() =~= items.take(k));
    }
}

/// (sha256 1 v) for a small v: what the two-item list hashes and costs
pub proof fn lemma_sha_two_small(items: Seq<Tree>, val: u32, nb: nat, pa: nat, pb: nat)
    requires
        items.len() == 2,
        items[0] == Tree::Atom(small_bytes(1)),
        items[1] == Tree::Atom(small_bytes(val)),
        val < 0x80,
    ensures
        items_cat(items) =~= seq![1u8] + small_bytes(val),
        sha_cost(items, nb, pa, pb) == nb + 2 * pa + pb * (1 + small_bytes(val).len()),
        all_atom_items(items),
        small_bytes(val).len() == (if val > 0 { 1nat } else { 0nat }),
{
    assert(small_bytes(1) =~= seq![1u8]) by {
        assert(1u32 as u8 == 1u8) by (bit_vector);
    }
    let i1 = items.drop_last();
    assert(i1 =~= seq![items[0]]);
    assert(i1.drop_last() =~= Seq::<Tree>::empty());
    assert(items.last() == items[1] && i1.last() == items[0]);
    reveal_with_fuel(sha_cost, 3);
    reveal_with_fuel(items_cat, 3);
    assert(items_cat(i1) =~= small_bytes(1));
    assert(items_cat(items) =~= items_cat(i1) + small_bytes(val));
    assert(sha_cost(i1, nb, pa, pb) == nb + pa + pb * 1);
    assert(item_len(items[1]) == small_bytes(val).len());
    assert(pb * (1 + small_bytes(val).len()) == pb * 1 + pb * small_bytes(val).len()) by (nonlinear_arith);
}
