// ---------------------------------------------------------------------------------------------
// serde_2026 (C20): varints as an abstract codec (their concrete meaning is proved by Kani, C21),
// the length of a body as a recursive specification, and the stubs the decoder needs.
// ---------------------------------------------------------------------------------------------

/// the integer a well-formed varint denotes (7*(k+1)-bit two's complement after k leading ones):
/// uninterpreted here; Kani harness varint_decode_total pins it on the compiled function
pub uninterp spec fn varint_val(bytes: Seq<u8>) -> int;

/// the encoding is the shortest one for its value (what strict mode demands)
pub uninterp spec fn varint_minimal(bytes: Seq<u8>) -> bool;

/// ASSUMED range fact (Kani: the value is a 7*(k+1) <= 56 bit two's complement number)
#[verifier::external_body]
pub broadcast proof fn axiom_varint_range(bytes: Seq<u8>)
    ensures
        -0x80_0000_0000_0000 <= #[trigger] varint_val(bytes) < 0x80_0000_0000_0000,
{
}

/// reading one varint at position p: (value, next position)
pub open spec fn varint_at(s: Seq<u8>, p: nat, strict: bool) -> Option<(int, nat)> {
    if p >= s.len() {
        None
    } else {
        let k = prefix_len_of(s[p as int]);
        if k >= 8 || p + k + 1 > s.len() {
            None
        } else {
            let bytes = s.subrange(p as int, (p + k + 1) as int);
            if strict && !varint_minimal(bytes) {
                None
            } else {
                Some((varint_val(bytes), (p + k + 1) as nat))
            }
        }
    }
}

/// skipping n atom groups starting at p: the next position
pub open spec fn groups_end(s: Seq<u8>, p: nat, n: nat, max_atom_len: nat, strict: bool) -> Option<nat>
    decreases n,
{
    if n == 0 {
        Some(p)
    } else {
        match varint_at(s, p, strict) {
            None => None,
            Some((lv, p1)) => {
                if lv < 0 {
                    if -lv > max_atom_len {
                        None
                    } else {
                        match varint_at(s, p1, strict) {
                            None => None,
                            Some((cnt, p2)) => {
                                if cnt <= 0 || p2 + (-lv) * cnt > s.len() {
                                    None
                                } else {
                                    groups_end(s, (p2 + (-lv) * cnt) as nat, (n - 1) as nat, max_atom_len, strict)
                                }
                            },
                        }
                    }
                } else if lv == 0 || lv > max_atom_len || p1 + lv > s.len() {
                    None
                } else {
                    groups_end(s, (p1 + lv) as nat, (n - 1) as nat, max_atom_len, strict)
                }
            },
        }
    }
}

/// skipping n instruction varints
pub open spec fn instrs_end(s: Seq<u8>, p: nat, n: nat, strict: bool) -> Option<nat>
    decreases n,
{
    if n == 0 {
        Some(p)
    } else {
        match varint_at(s, p, strict) {
            None => None,
            Some((v, p1)) => instrs_end(s, p1, (n - 1) as nat, strict),
        }
    }
}

/// the length of a well-formed body starting at p (atom table, then the instruction stream)
pub open spec fn body_end(s: Seq<u8>, p: nat, max_atom_len: nat, strict: bool) -> Option<nat> {
    match varint_at(s, p, strict) {
        None => None,
        Some((gc, p1)) => {
            if gc < 0 {
                None
            } else {
                match groups_end(s, p1, gc as nat, max_atom_len, strict) {
                    None => None,
                    Some(p2) => match varint_at(s, p2, strict) {
                        None => None,
                        Some((ic, p3)) => if ic <= 0 { None } else { instrs_end(s, p3, ic as nat, strict) },
                    },
                }
            }
        },
    }
}
