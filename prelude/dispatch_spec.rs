// ---------------------------------------------------------------------------------------------
// ChiaDialect::op: the operator table as a specification (C07 C08 C09 C11).
//
// `op_result(k, a, args, max_cost, flags)` is the (result, allocator-after) of calling operator
// function number k: an uninterpreted witness of the fact that every operator function is a
// deterministic function of its arguments and the allocator (no global state).  `unk_result` is
// the same for op_unknown.  What the table decides is WHICH function is called (or which error is
// raised) for an opcode under a flag set; the C07/C08/C11 clauses about routing are lemmas on it.
// ---------------------------------------------------------------------------------------------
pub uninterp spec fn op_result(k: int, a: Allocator, args: NodePtr, max_cost: Cost, flags: ClvmFlags) -> (Response, Allocator);

pub uninterp spec fn unk_result(a: Allocator, o: NodePtr, args: NodePtr, max_cost: Cost, flags: ClvmFlags) -> (Response, Allocator);

pub enum Sel {
    Op(int),
    Unknown,
    Unimplemented,
}

/// the flags an operator sees inside a softfork guard of extension `ext`
pub open spec fn eff_flags(flags: ClvmFlags, ext: OperatorSet) -> ClvmFlags {
    match ext {
        OperatorSet::Default => flags,
        OperatorSet::Bls => flags,
        OperatorSet::Keccak => ClvmFlags { bits: flags.bits | 0x100 },
        OperatorSet::PreHardFork => ClvmFlags { bits: flags.bits | 0x100 },
    }
}

pub open spec fn base_opcode(v: int) -> bool {
    (3 <= v <= 14) || (16 <= v <= 27) || v == 29 || v == 30 || (32 <= v <= 34) || (48 <= v <= 59) || v == 61
}

/// the operator table of the Chia dialect (written from the opcode list in the documentation:
/// 3..14, 16..27, 29, 30, 32..34 classic; 48..59, 61 BLS/coinid/mod (hard-forked in); 60 modpow
/// (disabled by DISABLE_OP unless the new cost model bounds it); 62 keccak256, 63 sha256tree,
/// 64/65 secp verify behind their enabling flags; the two 4-byte secp opcodes always)
pub open spec fn selected(ob: Seq<u8>, f: ClvmFlags) -> Sel {
    if ob.len() == 4 {
        if ob =~= seq![0x13u8, 0xd6u8, 0x1fu8, 0x00u8] {
            Sel::Op(64)
        } else if ob =~= seq![0x1cu8, 0x3au8, 0x8fu8, 0x00u8] {
            Sel::Op(65)
        } else {
            Sel::Unknown
        }
    } else if ob.len() != 1 || ob[0] == 0 || ob[0] >= 0x80 {
        Sel::Unknown
    } else {
        let v = ob[0] as int;
        if base_opcode(v) {
            Sel::Op(v)
        } else if v == 60 {
            if f.has(ClvmFlags::DISABLE_OP) && !f.has(ClvmFlags::NEW_COST_MODEL) {
                Sel::Unimplemented
            } else {
                Sel::Op(60)
            }
        } else if v == 62 && f.has(ClvmFlags::ENABLE_KECCAK_OPS_OUTSIDE_GUARD) {
            Sel::Op(62)
        } else if v == 63 && f.has(ClvmFlags::ENABLE_SHA256_TREE) {
            Sel::Op(63)
        } else if (v == 64 || v == 65) && f.has(ClvmFlags::ENABLE_SECP_OPS) {
            Sel::Op(v)
        } else {
            Sel::Unknown
        }
    }
}

pub open spec fn unknown_spec(a: Allocator, o: NodePtr, args: NodePtr, f: ClvmFlags, max_cost: Cost) -> (Response, Allocator) {
    if f.has(ClvmFlags::NO_UNKNOWN_OPS) {
        (Err(EvalErr::Unimplemented(o)), a)
    } else {
        unk_result(a, o, args, max_cost, f)
    }
}

pub open spec fn dispatch_spec(flags: ClvmFlags, a: Allocator, o: NodePtr, args: NodePtr, max_cost: Cost, ext: OperatorSet) -> (Response, Allocator) {
    let f = eff_flags(flags, ext);
    match selected(a.bytes(o), f) {
        Sel::Op(k) => op_result(k, a, args, max_cost, f),
        Sel::Unknown => unknown_spec(a, o, args, f, max_cost),
        Sel::Unimplemented => (Err(EvalErr::Unimplemented(o)), a),
    }
}

/// a 1-byte atom is a canonical small integer exactly when 0 < b < 0x80
pub proof fn lemma_fits_one_byte(s: Seq<u8>)
    requires
        s.len() == 1,
    ensures
        fits(s) is Some <==> 0 < s[0] < 0x80,
        fits(s) is Some ==> fits(s)->0 == s[0] as u32,
{
    lemma_be_val_1(s);
    let v = s[0] as u32;
    if v == 0 {
        assert(small_bytes(0).len() == 0);
    } else if v < 0x80 {
        assert(v < 0x80 ==> (v as u8) == v) by (bit_vector);
        assert(small_bytes(v) =~= seq![v as u8]);
        assert(s =~= seq![s[0]]);
    } else {
        assert(small_bytes(v).len() == 2);
    }
}

pub proof fn lemma_opcode4(s: Seq<u8>, v: u32)
    requires
        s.len() == 4,
        v == ((s[0] as u32) << 24u32) | ((s[1] as u32) << 16u32) | ((s[2] as u32) << 8u32) | (s[3] as u32),
    ensures
        v == 0x13d61f00 <==> s =~= seq![0x13u8, 0xd6u8, 0x1fu8, 0x00u8],
        v == 0x1c3a8f00 <==> s =~= seq![0x1cu8, 0x3au8, 0x8fu8, 0x00u8],
{
    let b0 = s[0];
    let b1 = s[1];
    let b2 = s[2];
    let b3 = s[3];
    assert((((b0 as u32) << 24u32) | ((b1 as u32) << 16u32) | ((b2 as u32) << 8u32) | (b3 as u32)) == 0x13d61f00u32 <==> (b0 == 0x13 && b1 == 0xd6 && b2 == 0x1f && b3
        == 0)) by (bit_vector);
    assert((((b0 as u32) << 24u32) | ((b1 as u32) << 16u32) | ((b2 as u32) << 8u32) | (b3 as u32)) == 0x1c3a8f00u32 <==> (b0 == 0x1c && b1 == 0x3a && b2 == 0x8f && b3
        == 0)) by (bit_vector);
}
