// R7: ordering on the num-bigint stub: ASSUMED to be the ordering of the abstract integer values
impl vstd::std_specs::cmp::PartialEqSpecImpl for Number {
    closed spec fn obeys_eq_spec() -> bool {
        true
    }

    closed spec fn eq_spec(&self, o: &Number) -> bool {
        self.val() == o.val()
    }
}

impl PartialEq for Number {
    #[verifier::external_body]
    fn eq(&self, o: &Number) -> (r: bool) {
        unimplemented!()
    }
}

impl vstd::std_specs::cmp::PartialOrdSpecImpl for Number {
    closed spec fn obeys_partial_cmp_spec() -> bool {
        true
    }

    closed spec fn partial_cmp_spec(&self, o: &Number) -> Option<core::cmp::Ordering> {
        if self.val() < o.val() {
            Some(core::cmp::Ordering::Less)
        } else if self.val() == o.val() {
            Some(core::cmp::Ordering::Equal)
        } else {
            Some(core::cmp::Ordering::Greater)
        }
    }
}

impl PartialOrd for Number {
    #[verifier::external_body]
    fn partial_cmp(&self, o: &Number) -> (r: Option<core::cmp::Ordering>) {
        unimplemented!()
    }
}

/// the canonical bytes of a small integer denote it (as a signed number too: the top bit is clear)
pub proof fn lemma_small_bytes_signed(v: u32)
    requires
        v < 0x400_0000,
    ensures
        signed_be(small_bytes(v)) == v,
{
    lemma_fits_small_bytes(v);
    lemma_small_bytes_shape(v);
}
