
// ---- big-endian value of longer fixed-length strings (generated; each follows from the previous) ----
pub proof fn lemma_be_val_5(s: Seq<u8>)
    requires
        s.len() == 5,
    ensures
        be_val(s) == s[0] as nat * 4294967296 + s[1] as nat * 16777216 + s[2] as nat * 65536 + s[3] as nat * 256 + s[4] as nat * 1,
{
    let t = s.drop_last();
    lemma_be_val_4(t);
    assert(t[0] == s[0] && t[1] == s[1] && t[2] == s[2] && t[3] == s[3]);
}

pub proof fn lemma_be_val_6(s: Seq<u8>)
    requires
        s.len() == 6,
    ensures
        be_val(s) == s[0] as nat * 1099511627776 + s[1] as nat * 4294967296 + s[2] as nat * 16777216 + s[3] as nat * 65536 + s[4] as nat * 256 + s[5] as nat * 1,
{
    let t = s.drop_last();
    lemma_be_val_5(t);
    assert(t[0] == s[0] && t[1] == s[1] && t[2] == s[2] && t[3] == s[3] && t[4] == s[4]);
}

pub proof fn lemma_be_val_7(s: Seq<u8>)
    requires
        s.len() == 7,
    ensures
        be_val(s) == s[0] as nat * 281474976710656 + s[1] as nat * 1099511627776 + s[2] as nat * 4294967296 + s[3] as nat * 16777216 + s[4] as nat * 65536 + s[5] as nat * 256 + s[6] as nat * 1,
{
    let t = s.drop_last();
    lemma_be_val_6(t);
    assert(t[0] == s[0] && t[1] == s[1] && t[2] == s[2] && t[3] == s[3] && t[4] == s[4] && t[5] == s[5]);
}

pub proof fn lemma_be_val_8(s: Seq<u8>)
    requires
        s.len() == 8,
    ensures
        be_val(s) == s[0] as nat * 72057594037927936 + s[1] as nat * 281474976710656 + s[2] as nat * 1099511627776 + s[3] as nat * 4294967296 + s[4] as nat * 16777216 + s[5] as nat * 65536 + s[6] as nat * 256 + s[7] as nat * 1,
{
    let t = s.drop_last();
    lemma_be_val_7(t);
    assert(t[0] == s[0] && t[1] == s[1] && t[2] == s[2] && t[3] == s[3] && t[4] == s[4] && t[5] == s[5] && t[6] == s[6]);
}

pub proof fn lemma_be_val_9(s: Seq<u8>)
    requires
        s.len() == 9,
    ensures
        be_val(s) == s[0] as nat * 18446744073709551616 + s[1] as nat * 72057594037927936 + s[2] as nat * 281474976710656 + s[3] as nat * 1099511627776 + s[4] as nat * 4294967296 + s[5] as nat * 16777216 + s[6] as nat * 65536 + s[7] as nat * 256 + s[8] as nat * 1,
{
    let t = s.drop_last();
    lemma_be_val_8(t);
    assert(t[0] == s[0] && t[1] == s[1] && t[2] == s[2] && t[3] == s[3] && t[4] == s[4] && t[5] == s[5] && t[6] == s[6] && t[7] == s[7]);
}

/// minimal two's-complement big-endian length of a u64 / i64 (the size ladders of new_u64 / new_i64)
pub open spec fn u64_enc_len(v: u64) -> nat {
    if v == 0 { 0 } else if v < 0x80 { 1 } else if v < 0x8000 { 2 } else if v < 0x80_0000 { 3 } else if v < 0x8000_0000 { 4 }
    else if v < 0x80_0000_0000 { 5 } else if v < 0x8000_0000_0000 { 6 } else if v < 0x80_0000_0000_0000 { 7 }
    else if v < 0x8000_0000_0000_0000 { 8 } else { 9 }
}

pub open spec fn i64_enc_len(v: i64) -> nat {
    if v >= 0 { u64_enc_len(v as u64) } else if v >= -0x80 { 1 } else if v >= -0x8000 { 2 } else if v >= -0x80_0000 { 3 }
    else if v >= -0x8000_0000 { 4 } else if v >= -0x80_0000_0000 { 5 } else if v >= -0x8000_0000_0000 { 6 }
    else if v >= -0x80_0000_0000_0000 { 7 } else { 8 }
}

proof fn lemma_u64_case_1(v: u64)
    requires
        0x1u64 <= v && v < 0x80u64,
    ensures
        (v as u8) as u64 == v, (v as u8) < 0x80, (v as u8) != 0,
{
    assert(0x1u64 <= v && v < 0x80u64 ==> (v as u8) as u64 == v && (v as u8) < 0x80 && (v as u8) != 0) by (bit_vector);
}

proof fn lemma_u64_case_2(v: u64)
    requires
        0x80u64 <= v && v < 0x8000u64,
    ensures
        ((v >> 8) as u8) as u64 * 256 + (v as u8) as u64 == v, ((v >> 8) as u8) < 0x80, (((v >> 8) as u8) == 0 ==> (v as u8) >= 0x80),
{
    assert(0x80u64 <= v && v < 0x8000u64 ==> ((v >> 8) as u8) as u64 * 256 + (v as u8) as u64 == v && ((v >> 8) as u8) < 0x80 && (((v >> 8) as u8) == 0 ==> (v as u8) >= 0x80)) by (bit_vector);
}

proof fn lemma_u64_case_3(v: u64)
    requires
        0x8000u64 <= v && v < 0x800000u64,
    ensures
        ((v >> 16) as u8) as u64 * 65536 + ((v >> 8) as u8) as u64 * 256 + (v as u8) as u64 == v, ((v >> 16) as u8) < 0x80, (((v >> 16) as u8) == 0 ==> ((v >> 8) as u8) >= 0x80),
{
    assert(0x8000u64 <= v && v < 0x800000u64 ==> ((v >> 16) as u8) as u64 * 65536 + ((v >> 8) as u8) as u64 * 256 + (v as u8) as u64 == v && ((v >> 16) as u8) < 0x80 && (((v >> 16) as u8) == 0 ==> ((v >> 8) as u8) >= 0x80)) by (bit_vector);
}

proof fn lemma_u64_case_4(v: u64)
    requires
        0x800000u64 <= v && v < 0x80000000u64,
    ensures
        ((v >> 24) as u8) as u64 * 16777216 + ((v >> 16) as u8) as u64 * 65536 + ((v >> 8) as u8) as u64 * 256 + (v as u8) as u64 == v, ((v >> 24) as u8) < 0x80, (((v >> 24) as u8) == 0 ==> ((v >> 16) as u8) >= 0x80),
{
    assert(0x800000u64 <= v && v < 0x80000000u64 ==> ((v >> 24) as u8) as u64 * 16777216 + ((v >> 16) as u8) as u64 * 65536 + ((v >> 8) as u8) as u64 * 256 + (v as u8) as u64 == v && ((v >> 24) as u8) < 0x80 && (((v >> 24) as u8) == 0 ==> ((v >> 16) as u8) >= 0x80)) by (bit_vector);
}

proof fn lemma_u64_case_5(v: u64)
    requires
        0x80000000u64 <= v && v < 0x8000000000u64,
    ensures
        ((v >> 32) as u8) as u64 * 4294967296 + ((v >> 24) as u8) as u64 * 16777216 + ((v >> 16) as u8) as u64 * 65536 + ((v >> 8) as u8) as u64 * 256 + (v as u8) as u64 == v, ((v >> 32) as u8) < 0x80, (((v >> 32) as u8) == 0 ==> ((v >> 24) as u8) >= 0x80),
{
    assert(0x80000000u64 <= v && v < 0x8000000000u64 ==> ((v >> 32) as u8) as u64 * 4294967296 + ((v >> 24) as u8) as u64 * 16777216 + ((v >> 16) as u8) as u64 * 65536 + ((v >> 8) as u8) as u64 * 256 + (v as u8) as u64 == v && ((v >> 32) as u8) < 0x80 && (((v >> 32) as u8) == 0 ==> ((v >> 24) as u8) >= 0x80)) by (bit_vector);
}

proof fn lemma_u64_case_6(v: u64)
    requires
        0x8000000000u64 <= v && v < 0x800000000000u64,
    ensures
        ((v >> 40) as u8) as u64 * 1099511627776 + ((v >> 32) as u8) as u64 * 4294967296 + ((v >> 24) as u8) as u64 * 16777216 + ((v >> 16) as u8) as u64 * 65536 + ((v >> 8) as u8) as u64 * 256 + (v as u8) as u64 == v, ((v >> 40) as u8) < 0x80, (((v >> 40) as u8) == 0 ==> ((v >> 32) as u8) >= 0x80),
{
    assert(0x8000000000u64 <= v && v < 0x800000000000u64 ==> ((v >> 40) as u8) as u64 * 1099511627776 + ((v >> 32) as u8) as u64 * 4294967296 + ((v >> 24) as u8) as u64 * 16777216 + ((v >> 16) as u8) as u64 * 65536 + ((v >> 8) as u8) as u64 * 256 + (v as u8) as u64 == v && ((v >> 40) as u8) < 0x80 && (((v >> 40) as u8) == 0 ==> ((v >> 32) as u8) >= 0x80)) by (bit_vector);
}

proof fn lemma_u64_case_7(v: u64)
    requires
        0x800000000000u64 <= v && v < 0x80000000000000u64,
    ensures
        ((v >> 48) as u8) as u64 * 281474976710656 + ((v >> 40) as u8) as u64 * 1099511627776 + ((v >> 32) as u8) as u64 * 4294967296 + ((v >> 24) as u8) as u64 * 16777216 + ((v >> 16) as u8) as u64 * 65536 + ((v >> 8) as u8) as u64 * 256 + (v as u8) as u64 == v, ((v >> 48) as u8) < 0x80, (((v >> 48) as u8) == 0 ==> ((v >> 40) as u8) >= 0x80),
{
    assert(0x800000000000u64 <= v && v < 0x80000000000000u64 ==> ((v >> 48) as u8) as u64 * 281474976710656 + ((v >> 40) as u8) as u64 * 1099511627776 + ((v >> 32) as u8) as u64 * 4294967296 + ((v >> 24) as u8) as u64 * 16777216 + ((v >> 16) as u8) as u64 * 65536 + ((v >> 8) as u8) as u64 * 256 + (v as u8) as u64 == v && ((v >> 48) as u8) < 0x80 && (((v >> 48) as u8) == 0 ==> ((v >> 40) as u8) >= 0x80)) by (bit_vector);
}

proof fn lemma_u64_case_8(v: u64)
    requires
        0x80000000000000u64 <= v && v < 0x8000000000000000u64,
    ensures
        ((v >> 56) as u8) as u64 * 72057594037927936 + ((v >> 48) as u8) as u64 * 281474976710656 + ((v >> 40) as u8) as u64 * 1099511627776 + ((v >> 32) as u8) as u64 * 4294967296 + ((v >> 24) as u8) as u64 * 16777216 + ((v >> 16) as u8) as u64 * 65536 + ((v >> 8) as u8) as u64 * 256 + (v as u8) as u64 == v, ((v >> 56) as u8) < 0x80, (((v >> 56) as u8) == 0 ==> ((v >> 48) as u8) >= 0x80),
{
    assert(0x80000000000000u64 <= v && v < 0x8000000000000000u64 ==> ((v >> 56) as u8) as u64 * 72057594037927936 + ((v >> 48) as u8) as u64 * 281474976710656 + ((v >> 40) as u8) as u64 * 1099511627776 + ((v >> 32) as u8) as u64 * 4294967296 + ((v >> 24) as u8) as u64 * 16777216 + ((v >> 16) as u8) as u64 * 65536 + ((v >> 8) as u8) as u64 * 256 + (v as u8) as u64 == v && ((v >> 56) as u8) < 0x80 && (((v >> 56) as u8) == 0 ==> ((v >> 48) as u8) >= 0x80)) by (bit_vector);
}

proof fn lemma_u64_case_9(v: u64)
    requires
        v >= 0x8000_0000_0000_0000u64,
    ensures
        ((v >> 56) as u8) as int * 72057594037927936 + ((v >> 48) as u8) as int * 281474976710656 + ((v >> 40) as u8) as int * 1099511627776 + ((v >> 32) as u8) as int * 4294967296 + ((v >> 24) as u8) as int * 16777216 + ((v >> 16) as u8) as int * 65536 + ((v >> 8) as u8) as int * 256 + (v as u8) as int == v as int,
        ((v >> 56) as u8) >= 0x80,
{
    assert(v >= 0x8000_0000_0000_0000u64 ==> ((v >> 56) as u8) as u64 * 72057594037927936 + ((v >> 48) as u8) as u64 * 281474976710656 + ((v >> 40) as u8) as u64 * 1099511627776 + ((v >> 32) as u8) as u64 * 4294967296 + ((v >> 24) as u8) as u64 * 16777216 + ((v >> 16) as u8) as u64 * 65536 + ((v >> 8) as u8) as u64 * 256 + (v as u8) as u64 == v && ((v >> 56) as u8) >= 0x80) by (bit_vector);
}

/// the 9-byte buffer [0, be bytes of v] cut at 9 - u64_enc_len(v) is the canonical encoding of v
pub proof fn lemma_u64_canonical(v: u64, buf: Seq<u8>)
    requires
        buf.len() == 9,
        buf[0] == 0,
        buf.subrange(1, 9) =~= seq![(v >> 56) as u8, (v >> 48) as u8, (v >> 40) as u8, (v >> 32) as u8, (v >> 24) as u8, (v >> 16) as u8, (v >> 8) as u8, v as u8],
    ensures
        ({
            let s = buf.subrange(9 - u64_enc_len(v) as int, 9);
            canonical_int(s) && signed_be(s) == v as int && s.len() == u64_enc_len(v)
        }),
{
    let n = u64_enc_len(v);
    let s = buf.subrange(9 - n as int, 9);
    assert(buf[1] == (v >> 56) as u8 && buf[2] == (v >> 48) as u8 && buf[3] == (v >> 40) as u8 && buf[4] == (v >> 32) as u8 && buf[5] == (v >> 24) as u8 && buf[6] == (v >> 16) as u8 && buf[7] == (v >> 8) as u8 && buf[8] == v as u8) by {
        let t = buf.subrange(1, 9);
        assert(t[0] == buf[1] && t[1] == buf[2] && t[2] == buf[3] && t[3] == buf[4] && t[4] == buf[5] && t[5] == buf[6] && t[6] == buf[7] && t[7] == buf[8]);
    }
    if n == 0 {
        assert(s =~= Seq::<u8>::empty());
    } else if n == 1 {
        lemma_be_val_1(s);
        lemma_u64_case_1(v);
        assert(s[0] == buf[8]);
    } else if n == 2 {
        lemma_be_val_2(s);
        lemma_u64_case_2(v);
        assert(s[0] == buf[7] && s[1] == buf[8]);
    } else if n == 3 {
        lemma_be_val_3(s);
        lemma_u64_case_3(v);
        assert(s[0] == buf[6] && s[1] == buf[7] && s[2] == buf[8]);
    } else if n == 4 {
        lemma_be_val_4(s);
        lemma_u64_case_4(v);
        assert(s[0] == buf[5] && s[1] == buf[6] && s[2] == buf[7] && s[3] == buf[8]);
    } else if n == 5 {
        lemma_be_val_5(s);
        lemma_u64_case_5(v);
        assert(s[0] == buf[4] && s[1] == buf[5] && s[2] == buf[6] && s[3] == buf[7] && s[4] == buf[8]);
    } else if n == 6 {
        lemma_be_val_6(s);
        lemma_u64_case_6(v);
        assert(s[0] == buf[3] && s[1] == buf[4] && s[2] == buf[5] && s[3] == buf[6] && s[4] == buf[7] && s[5] == buf[8]);
    } else if n == 7 {
        lemma_be_val_7(s);
        lemma_u64_case_7(v);
        assert(s[0] == buf[2] && s[1] == buf[3] && s[2] == buf[4] && s[3] == buf[5] && s[4] == buf[6] && s[5] == buf[7] && s[6] == buf[8]);
    } else if n == 8 {
        lemma_be_val_8(s);
        lemma_u64_case_8(v);
        assert(s[0] == buf[1] && s[1] == buf[2] && s[2] == buf[3] && s[3] == buf[4] && s[4] == buf[5] && s[5] == buf[6] && s[6] == buf[7] && s[7] == buf[8]);
    } else if n == 9 {
        lemma_be_val_9(s);
        lemma_u64_case_9(v);
        assert(s[0] == buf[0] && s[1] == buf[1] && s[2] == buf[2] && s[3] == buf[3] && s[4] == buf[4] && s[5] == buf[5] && s[6] == buf[6] && s[7] == buf[7] && s[8] == buf[8]);
    }
}

/// the 8 big-endian bytes of a negative i64 cut at 8 - i64_enc_len(v) are its canonical encoding
pub proof fn lemma_i64_neg_canonical(v: i64, buf: Seq<u8>)
    requires
        v < 0,
        buf.len() == 8,
        buf =~= seq![((v as u64) >> 56) as u8, ((v as u64) >> 48) as u8, ((v as u64) >> 40) as u8, ((v as u64) >> 32) as u8, ((v as u64) >> 24) as u8, ((v as u64) >> 16) as u8, ((v as u64) >> 8) as u8, (v as u64) as u8],
    ensures
        ({
            let s = buf.subrange(8 - i64_enc_len(v) as int, 8);
            canonical_int(s) && signed_be(s) == v as int && s.len() == i64_enc_len(v)
        }),
{
    let n = i64_enc_len(v);
    let x = v as u64;
    assert(v < 0 ==> ((v as u64) as i128) - 0x1_0000_0000_0000_0000 == v as i128) by (bit_vector);
    assert(x as int == v as int + 0x1_0000_0000_0000_0000);
    let s = buf.subrange(8 - n as int, 8);
    lemma_pow256_vals();
    lemma_pow256_step(4); lemma_pow256_step(5); lemma_pow256_step(6); lemma_pow256_step(7);
    if n == 1 {
        assert(0xffffffffffffff80u64 <= x && x <= 0xffffffffffffffffu64);
        assert(0xffffffffffffff80u64 <= x && x <= 0xffffffffffffffffu64 ==> (x as u8) >= 0x80 && x == 0xffffffffffffff00u64 + ((x as u8) as u64)) by (bit_vector);
        assert(s[0] == (x as u8));
        lemma_be_val_1(s);
    }
    else if n == 2 {
        assert(0xffffffffffff8000u64 <= x && x <= 0xffffffffffffff7fu64);
        assert(0xffffffffffff8000u64 <= x && x <= 0xffffffffffffff7fu64 ==> ((x >> 8) as u8) >= 0x80 && x == 0xffffffffffff0000u64 + (((x >> 8) as u8) as u64 * 256 + (x as u8) as u64) && !(((x >> 8) as u8) == 0xff && (x as u8) >= 0x80)) by (bit_vector);
        assert(s[0] == ((x >> 8) as u8) && s[1] == (x as u8));
        lemma_be_val_2(s);
    }
    else if n == 3 {
        assert(0xffffffffff800000u64 <= x && x <= 0xffffffffffff7fffu64);
        assert(0xffffffffff800000u64 <= x && x <= 0xffffffffffff7fffu64 ==> ((x >> 16) as u8) >= 0x80 && x == 0xffffffffff000000u64 + (((x >> 16) as u8) as u64 * 65536 + ((x >> 8) as u8) as u64 * 256 + (x as u8) as u64) && !(((x >> 16) as u8) == 0xff && ((x >> 8) as u8) >= 0x80)) by (bit_vector);
        assert(s[0] == ((x >> 16) as u8) && s[1] == ((x >> 8) as u8) && s[2] == (x as u8));
        lemma_be_val_3(s);
    }
    else if n == 4 {
        assert(0xffffffff80000000u64 <= x && x <= 0xffffffffff7fffffu64);
        assert(0xffffffff80000000u64 <= x && x <= 0xffffffffff7fffffu64 ==> ((x >> 24) as u8) >= 0x80 && x == 0xffffffff00000000u64 + (((x >> 24) as u8) as u64 * 16777216 + ((x >> 16) as u8) as u64 * 65536 + ((x >> 8) as u8) as u64 * 256 + (x as u8) as u64) && !(((x >> 24) as u8) == 0xff && ((x >> 16) as u8) >= 0x80)) by (bit_vector);
        assert(s[0] == ((x >> 24) as u8) && s[1] == ((x >> 16) as u8) && s[2] == ((x >> 8) as u8) && s[3] == (x as u8));
        lemma_be_val_4(s);
    }
    else if n == 5 {
        assert(0xffffff8000000000u64 <= x && x <= 0xffffffff7fffffffu64);
        assert(0xffffff8000000000u64 <= x && x <= 0xffffffff7fffffffu64 ==> ((x >> 32) as u8) >= 0x80 && x == 0xffffff0000000000u64 + (((x >> 32) as u8) as u64 * 4294967296 + ((x >> 24) as u8) as u64 * 16777216 + ((x >> 16) as u8) as u64 * 65536 + ((x >> 8) as u8) as u64 * 256 + (x as u8) as u64) && !(((x >> 32) as u8) == 0xff && ((x >> 24) as u8) >= 0x80)) by (bit_vector);
        assert(s[0] == ((x >> 32) as u8) && s[1] == ((x >> 24) as u8) && s[2] == ((x >> 16) as u8) && s[3] == ((x >> 8) as u8) && s[4] == (x as u8));
        lemma_be_val_5(s);
    }
    else if n == 6 {
        assert(0xffff800000000000u64 <= x && x <= 0xffffff7fffffffffu64);
        assert(0xffff800000000000u64 <= x && x <= 0xffffff7fffffffffu64 ==> ((x >> 40) as u8) >= 0x80 && x == 0xffff000000000000u64 + (((x >> 40) as u8) as u64 * 1099511627776 + ((x >> 32) as u8) as u64 * 4294967296 + ((x >> 24) as u8) as u64 * 16777216 + ((x >> 16) as u8) as u64 * 65536 + ((x >> 8) as u8) as u64 * 256 + (x as u8) as u64) && !(((x >> 40) as u8) == 0xff && ((x >> 32) as u8) >= 0x80)) by (bit_vector);
        assert(s[0] == ((x >> 40) as u8) && s[1] == ((x >> 32) as u8) && s[2] == ((x >> 24) as u8) && s[3] == ((x >> 16) as u8) && s[4] == ((x >> 8) as u8) && s[5] == (x as u8));
        lemma_be_val_6(s);
    }
    else if n == 7 {
        assert(0xff80000000000000u64 <= x && x <= 0xffff7fffffffffffu64);
        assert(0xff80000000000000u64 <= x && x <= 0xffff7fffffffffffu64 ==> ((x >> 48) as u8) >= 0x80 && x == 0xff00000000000000u64 + (((x >> 48) as u8) as u64 * 281474976710656 + ((x >> 40) as u8) as u64 * 1099511627776 + ((x >> 32) as u8) as u64 * 4294967296 + ((x >> 24) as u8) as u64 * 16777216 + ((x >> 16) as u8) as u64 * 65536 + ((x >> 8) as u8) as u64 * 256 + (x as u8) as u64) && !(((x >> 48) as u8) == 0xff && ((x >> 40) as u8) >= 0x80)) by (bit_vector);
        assert(s[0] == ((x >> 48) as u8) && s[1] == ((x >> 40) as u8) && s[2] == ((x >> 32) as u8) && s[3] == ((x >> 24) as u8) && s[4] == ((x >> 16) as u8) && s[5] == ((x >> 8) as u8) && s[6] == (x as u8));
        lemma_be_val_7(s);
    }
    else if n == 8 {
        assert(0x8000000000000000u64 <= x && x <= 0xff7fffffffffffffu64);
        assert(0x8000000000000000u64 <= x && x <= 0xff7fffffffffffffu64 ==> ((x >> 56) as u8) >= 0x80 && x == ((x >> 56) as u8) as u64 * 72057594037927936 + ((x >> 48) as u8) as u64 * 281474976710656 + ((x >> 40) as u8) as u64 * 1099511627776 + ((x >> 32) as u8) as u64 * 4294967296 + ((x >> 24) as u8) as u64 * 16777216 + ((x >> 16) as u8) as u64 * 65536 + ((x >> 8) as u8) as u64 * 256 + (x as u8) as u64 && !(((x >> 56) as u8) == 0xff && ((x >> 48) as u8) >= 0x80)) by (bit_vector);
        assert(s[0] == ((x >> 56) as u8) && s[1] == ((x >> 48) as u8) && s[2] == ((x >> 40) as u8) && s[3] == ((x >> 32) as u8) && s[4] == ((x >> 24) as u8) && s[5] == ((x >> 16) as u8) && s[6] == ((x >> 8) as u8) && s[7] == (x as u8));
        lemma_be_val_8(s);
    }
}

pub proof fn lemma_be_val_leading_zero(t: Seq<u8>)
    ensures
        be_val(seq![0u8] + t) == be_val(t),
    decreases t.len(),
{
    let s = seq![0u8] + t;
    if t.len() == 0 {
        assert(s =~= seq![0u8]);
        lemma_be_val_1(s);
        reveal_with_fuel(be_val, 1);
    } else {
        assert(s.drop_last() =~= seq![0u8] + t.drop_last());
        assert(s.last() == t.last());
        lemma_be_val_leading_zero(t.drop_last());
    }
}

/// dropping a leading zero byte that is not needed as a sign byte keeps the signed value
pub proof fn lemma_signed_strip_zero(s: Seq<u8>)
    requires
        s.len() >= 1,
        s[0] == 0,
        s.len() == 1 || s[1] < 0x80,
    ensures
        signed_be(s.skip(1)) == signed_be(s),
{
    let t = s.skip(1);
    assert(s =~= seq![0u8] + t);
    lemma_be_val_leading_zero(t);
    if t.len() == 0 {
        reveal_with_fuel(be_val, 1);
    }
}
