// signed 32-bit decoding (u32_from_u8_impl with signed = true, i32_from_u8, i32_atom)
/// two's-complement value of a u32 read as i32
pub open spec fn as_i32(v: u32) -> int {
    if v >= 0x8000_0000 { v as int - 0x1_0000_0000 } else { v as int }
}

pub proof fn lemma_shl8_signext(x: u32, b: u8)
    requires
        x >= 0xff00_0000,
    ensures
        ((x << 8u32) | (b as u32)) == (x - 0xff00_0000) * 256 + b,
{
    assert(((x << 8u32) | (b as u32)) == (x - 0xff00_0000) * 256 + b) by (bit_vector)
        requires
            x >= 0xff00_0000,
    ;
}

/// the first byte dominates: be_val(s) >= s[0] * 256^(len-1)
pub proof fn lemma_be_val_first(s: Seq<u8>)
    requires
        s.len() > 0,
    ensures
        be_val(s) >= s[0] as int * pow256((s.len() - 1) as nat),
        be_val(s) < (s[0] as int + 1) * pow256((s.len() - 1) as nat),
    decreases s.len(),
{
    reveal_with_fuel(be_val, 2);
    reveal_with_fuel(pow256, 2);
    if s.len() == 1 {
        assert(s.drop_last() =~= Seq::<u8>::empty());
    } else {
        let t = s.drop_last();
        lemma_be_val_first(t);
        assert(t[0] == s[0]);
        lemma_pow256_step((s.len() - 2) as nat);
        let p = pow256((s.len() - 2) as nat);
        assert(be_val(s) == be_val(t) * 256 + s.last());
        assert(be_val(t) * 256 >= (s[0] as int * p) * 256);
        assert((s[0] as int * p) * 256 == s[0] as int * (p * 256)) by (nonlinear_arith);
        assert(be_val(t) + 1 <= (s[0] as int + 1) * p);
        assert((be_val(t) + 1) * 256 <= ((s[0] as int + 1) * p) * 256) by (nonlinear_arith)
            requires
                be_val(t) + 1 <= (s[0] as int + 1) * p,
        ;
        assert(((s[0] as int + 1) * p) * 256 == (s[0] as int + 1) * (p * 256)) by (nonlinear_arith);
    }
}

/// the canonical bytes of a small integer denote it (as a signed number too: the top bit is clear)
pub proof fn lemma_small_bytes_signed_v(v: u32)
    requires
        v < 0x400_0000,
    ensures
        signed_be(small_bytes(v)) == v,
{
    lemma_fits_small_bytes(v);
    lemma_small_bytes_shape(v);
}

/// `v as i32` on a u32 is the two's-complement reinterpretation
pub proof fn lemma_u32_as_i32(v: u32)
    ensures
        (v as i32) as int == (if v >= 0x8000_0000u32 { v as int - 0x1_0000_0000 } else { v as int }),
{
    assert((v as i32) as i64 == (if v >= 0x8000_0000u32 { sub(v as i64, 0x1_0000_0000i64) } else { v as i64 })) by (bit_vector);
}
