#!/bin/sh
# Run once after a fresh restore, offline.  Builds the replay crate against /repo and warms Verus.
cd "$(dirname "$0")" || exit 1
export CARGO_NET_OFFLINE=true
mkdir -p .cache/units .cache/target evidence/replay
[ -f replay/Cargo.lock ] || cp /repo/Cargo.lock replay/Cargo.lock
( cd replay && CARGO_TARGET_DIR=/verif/.cache/target cargo build --release --offline --quiet ) || echo "setup: replay crate did not build (checks still decide; replays unavailable)"
verus --version >/dev/null 2>&1 || { echo "setup: verus not on PATH"; exit 1; }
python3 tools/gen_manifest.py >/dev/null
echo "setup done"
